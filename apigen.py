#!/usr/bin/env python3
"""apigen — derive the simulator's op table from the *current* working tree of glam.

Input : rustdoc JSON of the glam crate built with the same backend features as the simulator.
Output: ops_generated.rs (one wrapper fn + one table row per public function / operator / trait
        method whose signature lies in the type vocabulary) and api.json (what was included,
        what was skipped and why — reported in the evidence as `uncovered_api`).

The generator never fails a check by itself: a signature it cannot express is skipped and
listed. It is deterministic (sorted output) so the op indices in replay files are stable for a
given tree.
"""
import json, sys, os, re

VEC = {}  # name -> (elem, n, kind)


def _t(names, elem, kind="vec"):
    for nm, n in names:
        VEC[nm] = (elem, n, kind)


_t([("Vec2", 2), ("Vec3", 3), ("Vec3A", 3), ("Vec4", 4)], "f32")
_t([("DVec2", 2), ("DVec3", 3), ("DVec4", 4)], "f64")
for p, e in [("I8", "i8"), ("U8", "u8"), ("I16", "i16"), ("U16", "u16"), ("I", "i32"), ("U", "u32"),
             ("I64", "i64"), ("U64", "u64"), ("USize", "usize")]:
    _t([(p + "Vec2", 2), (p + "Vec3", 3), (p + "Vec4", 4)], e)
_t([("Quat", 4)], "f32", "quat")
_t([("DQuat", 4)], "f64", "quat")
_t([("Mat2", 4), ("Mat3", 9), ("Mat3A", 9), ("Mat4", 16), ("Affine2", 6), ("Affine3A", 12)], "f32", "mat")
_t([("DMat2", 4), ("DMat3", 9), ("DMat4", 16), ("DAffine2", 6), ("DAffine3", 12)], "f64", "mat")
_t([("BVec2", 2), ("BVec3", 3), ("BVec4", 4), ("BVec3A", 3), ("BVec4A", 4)], "bool", "bvec")

FLOAT_TYPES = [t for t, (e, n, k) in VEC.items() if e in ("f32", "f64")]
PADDED = ["Vec3A", "Mat3A", "Affine3A", "BVec3A"]
PRIMS = {"bool": "Bool", "f32": "F32", "f64": "F64", "i8": "I8", "u8": "U8", "i16": "I16", "u16": "U16",
         "i32": "I32", "u32": "U32", "i64": "I64", "u64": "U64", "usize": "Usize"}

TRAIT_PATHS = {
    "Add": "core::ops::Add", "Sub": "core::ops::Sub", "Mul": "core::ops::Mul", "Div": "core::ops::Div",
    "Rem": "core::ops::Rem", "Neg": "core::ops::Neg", "Not": "core::ops::Not",
    "AddAssign": "core::ops::AddAssign", "SubAssign": "core::ops::SubAssign", "MulAssign": "core::ops::MulAssign",
    "DivAssign": "core::ops::DivAssign", "RemAssign": "core::ops::RemAssign",
    "BitAnd": "core::ops::BitAnd", "BitOr": "core::ops::BitOr", "BitXor": "core::ops::BitXor",
    "BitAndAssign": "core::ops::BitAndAssign", "BitOrAssign": "core::ops::BitOrAssign", "BitXorAssign": "core::ops::BitXorAssign",
    "Shl": "core::ops::Shl", "Shr": "core::ops::Shr", "ShlAssign": "core::ops::ShlAssign", "ShrAssign": "core::ops::ShrAssign",
    "Index": "core::ops::Index", "IndexMut": "core::ops::IndexMut",
    "From": "core::convert::From", "AsRef": "core::convert::AsRef", "AsMut": "core::convert::AsMut",
    "TryFrom": "core::convert::TryFrom",
    "Default": "core::default::Default", "PartialEq": "core::cmp::PartialEq", "Clone": "core::clone::Clone",
    "Vec2Swizzles": "glam::Vec2Swizzles", "Vec3Swizzles": "glam::Vec3Swizzles", "Vec4Swizzles": "glam::Vec4Swizzles",
    "FloatExt": "glam::FloatExt",
}
# handled by hand-written generic wrappers (signature mentions Formatter / Hasher / iterators)
SPECIAL_TRAITS = {"Display", "Debug", "Hash", "Sum", "Product", "Deref", "DerefMut"}
IGNORED_TRAITS = {"Copy", "Eq", "StructuralPartialEq", "Send", "Sync", "Unpin", "Freeze", "UnwindSafe", "RefUnwindSafe"}


PATHS = {}


class Unsupported(Exception):
    pass


class T:
    """parsed type"""

    def __init__(self, kind, **kw):
        self.kind = kind
        self.__dict__.update(kw)

    def rust(self):
        k = self.kind
        if k == "unit":
            return "()"
        if k == "prim":
            return self.name
        if k == "glam":
            return "glam::" + self.name
        if k == "euler":
            return "glam::EulerRot"
        if k == "str":
            return "String"
        if k == "arr":
            return "[%s; %d]" % (self.elem.rust(), self.n)
        if k == "tup":
            return "(%s,)" % ", ".join(x.rust() for x in self.items) if len(self.items) == 1 else "(%s)" % ", ".join(x.rust() for x in self.items)
        if k == "opt":
            return "Option<%s>" % self.inner.rust()
        if k == "slice":
            return "[%s]" % self.elem.rust()
        if k == "ref":
            return "&%s%s" % ("mut " if self.mut else "", self.inner.rust())
        raise Unsupported(k)

    def ty(self):
        """the static `Ty` descriptor expression (value types only)"""
        k = self.kind
        if k == "unit":
            return "Ty::Unit"
        if k == "prim":
            return "Ty::S(Elem::%s)" % PRIMS[self.name]
        if k == "glam":
            return "Ty::G(TyId::%s)" % self.name
        if k == "euler":
            return "Ty::Euler"
        if k == "str":
            return "Ty::Str"
        if k == "arr":
            return "Ty::Arr(&%s, %d)" % (self.elem.ty(), self.n)
        if k == "tup":
            return "Ty::Tup(&[%s])" % ", ".join(x.ty() for x in self.items)
        if k == "opt":
            return "Ty::Opt(&%s)" % self.inner.ty()
        if k == "slice":
            if self.elem.kind != "prim":
                raise Unsupported("slice of non-scalar")
            return "Ty::Slice(Elem::%s)" % PRIMS[self.elem.name]
        raise Unsupported("ty of " + k)

    def mentions(self, names):
        k = self.kind
        if k == "glam":
            return self.name in names
        if k == "prim":
            return self.name in names
        if k in ("arr", "slice"):
            return self.elem.mentions(names)
        if k == "tup":
            return any(x.mentions(names) for x in self.items)
        if k in ("opt", "ref"):
            return self.inner.mentions(names)
        return False

    def show(self):
        try:
            return self.rust().replace("glam::", "")
        except Unsupported:
            return "?"


def parse_type(j, self_ty, assoc):
    if j is None:
        return T("unit")
    if "primitive" in j:
        n = j["primitive"]
        if n in PRIMS:
            return T("prim", name=n)
        raise Unsupported("primitive " + n)
    if "generic" in j:
        if j["generic"] == "Self":
            if self_ty is None:
                raise Unsupported("Self outside impl")
            return self_ty
        raise Unsupported("generic " + j["generic"])
    if "resolved_path" in j:
        p = j["resolved_path"]
        name = p["path"].split("::")[-1]
        # the path is spelled as in the source (`use crate::BVec4 as BVec4A`): resolve by id
        real = PATHS.get(str(p.get("id")))
        if real and real.get("crate_id") == 0 and real["path"][-1] in VEC:
            name = real["path"][-1]
        args = p.get("args")
        if name in VEC and not args:
            return T("glam", name=name)
        if name == "EulerRot":
            return T("euler")
        if name == "Option" and args:
            a = args["angle_bracketed"]["args"]
            return T("opt", inner=parse_type(a[0]["type"], self_ty, assoc))
        if name == "String":
            return T("str")
        raise Unsupported("path " + p["path"])
    if "borrowed_ref" in j:
        b = j["borrowed_ref"]
        return T("ref", mut=b["is_mutable"], inner=parse_type(b["type"], self_ty, assoc))
    if "array" in j:
        return T("arr", elem=parse_type(j["array"]["type"], self_ty, assoc), n=int(j["array"]["len"]))
    if "slice" in j:
        return T("slice", elem=parse_type(j["slice"], self_ty, assoc))
    if "tuple" in j:
        if not j["tuple"]:
            return T("unit")
        return T("tup", items=[parse_type(x, self_ty, assoc) for x in j["tuple"]])
    if "qualified_path" in j:
        q = j["qualified_path"]
        if q["name"] in assoc:
            return assoc[q["name"]]
        raise Unsupported("assoc " + q["name"])
    raise Unsupported("type " + list(j.keys())[0])


def strip_ref(t):
    return t.inner if t.kind == "ref" else t


class Op:
    pass


def build_ops(doc, want_types):
    idx = doc["index"]
    ops, skipped, specials = [], [], {}
    for key in sorted(idx, key=lambda k: int(k)):
        it = idx[key]
        if it.get("crate_id") != 0 or "impl" not in it["inner"]:
            continue
        im = it["inner"]["impl"]
        if im.get("blanket_impl") or im.get("is_synthetic"):
            continue
        try:
            for_t = parse_type(im["for"], None, {})
        except Unsupported:
            continue
        owner = strip_ref(for_t)
        if owner.kind not in ("glam", "prim", "arr", "tup"):
            continue
        trait = im["trait"]
        tname = trait["path"].split("::")[-1] if trait else None
        if tname in IGNORED_TRAITS:
            continue
        # associated types of this impl
        assoc = {}
        for iid in im["items"]:
            x = idx.get(str(iid))
            if x and "assoc_type" in x["inner"] and x["inner"]["assoc_type"].get("type"):
                try:
                    assoc[x["name"]] = parse_type(x["inner"]["assoc_type"]["type"], for_t, {})
                except Unsupported:
                    pass
        targs = []
        targs_ok = True
        if trait and trait.get("args") and "angle_bracketed" in trait["args"]:
            for a in trait["args"]["angle_bracketed"]["args"]:
                if "type" in a:
                    try:
                        targs.append(parse_type(a["type"], for_t, assoc))
                    except Unsupported as e:
                        targs_ok = False
                        targs.append(None)
        if tname == "IndexMut" and owner.kind == "glam" and "Output" not in assoc:
            assoc["Output"] = T("prim", name=VEC[owner.name][0])
        if tname == "PartialEq" and owner.kind == "glam" and not targs:
            specials.setdefault(owner.name, set()).add(("PartialEq", ""))
        if tname == "Clone" and owner.kind == "glam":
            specials.setdefault(owner.name, set()).add(("Clone", ""))
        if tname in SPECIAL_TRAITS:
            if owner.kind == "glam":
                arg = targs[0].show() if targs and targs[0] is not None else ""
                specials.setdefault(owner.name, set()).add((tname, arg))
            continue
        for iid in im["items"]:
            x = idx.get(str(iid))
            if not x or "function" not in x["inner"]:
                continue
            fn = x["inner"]["function"]
            fname = x["name"]
            disp_owner = for_t.show()
            if trait:
                disp = "<%s as %s%s>::%s" % (disp_owner, tname, ("<%s>" % ", ".join(a.show() if a else "?" for a in targs)) if targs else "", fname)
            else:
                if x.get("visibility") != "public":
                    continue
                disp = "%s::%s" % (disp_owner, fname)
            relevant = owner.kind == "glam" and owner.name in want_types
            try:
                if fn["header"].get("is_unsafe"):
                    raise Unsupported("unsafe fn")
                if fn["generics"]["params"]:
                    raise Unsupported("generic fn")
                if trait and not targs_ok:
                    raise Unsupported("trait argument outside the vocabulary")
                if trait and tname not in TRAIT_PATHS:
                    raise Unsupported("trait " + tname)
                args = [(n, parse_type(t, for_t, assoc)) for n, t in fn["sig"]["inputs"]]
                ret = parse_type(fn["sig"]["output"], for_t, assoc)
                allt = [t for _, t in args] + [ret]
                if not relevant:
                    relevant = any(t.mentions(want_types) for t in allt) and owner.kind in ("prim", "arr", "tup")
                if not relevant:
                    # functions of *other* glam types that take a padded value (IVec3: From<BVec3A>, ...)
                    relevant = any(t.mentions(set(PADDED)) for _, t in args)
                    # e.g. `impl Mul<Vec3A> for f32`; integer-vector owned functions that merely
                    # return a float type (IVec3::as_vec3) are outside the claimed properties
                if not relevant:
                    continue
                o = Op()
                o.name, o.owner, o.fname, o.trait = disp, owner.show(), fname, tname
                o.args, o.ret = args, ret
                if trait:
                    path = TRAIT_PATHS[tname]
                    ta = ("<%s>" % ", ".join(a.rust() for a in targs)) if targs else ""
                    o.callee = "<%s as %s%s>::%s" % (for_t.rust(), path, ta, fname)
                else:
                    o.callee = "<%s>::%s" % (for_t.rust(), fname)
                emit_check(o)
                ops.append(o)
            except Unsupported as e:
                if relevant or (owner.kind == "glam" and owner.name in want_types):
                    skipped.append({"fn": disp, "reason": str(e)})
    # free constructor functions (`vec3a(x, y, z)`, `mat3a(..)`, ...)
    module_level = set()
    for key in idx:
        it = idx[key]
        if it.get("crate_id") == 0 and "module" in it["inner"]:
            for x in it["inner"]["module"]["items"]:
                y = idx.get(str(x))
                if y and "use" in y["inner"] and y["inner"]["use"].get("id") is not None:
                    module_level.add(str(y["inner"]["use"]["id"]))
                else:
                    module_level.add(str(x))
    for key in sorted(module_level, key=lambda k: int(k)):
        it = idx.get(key)
        if not it or it.get("crate_id") != 0 or "function" not in it["inner"] or it.get("visibility") != "public":
            continue
        fn = it["inner"]["function"]
        try:
            ret = parse_type(fn["sig"]["output"], None, {})
            if ret.kind != "glam" or ret.name not in want_types or it["name"] != ret.name.lower():
                continue
            if fn["generics"]["params"]:
                raise Unsupported("generic fn")
            o = Op()
            o.name, o.owner, o.fname, o.trait = "glam::%s" % it["name"], ret.name, it["name"], None
            o.args = [(n, parse_type(t, None, {})) for n, t in fn["sig"]["inputs"]]
            o.ret = ret
            o.callee = "glam::%s" % it["name"]
            emit_check(o)
            ops.append(o)
        except Unsupported as e:
            skipped.append({"fn": "glam::" + it["name"], "reason": str(e)})
    ops.sort(key=lambda o: o.name)
    # duplicate display names (cannot happen for coherent impls, but keep indices unique)
    seen = {}
    for o in ops:
        seen[o.name] = seen.get(o.name, 0) + 1
        if seen[o.name] > 1:
            o.name += "#%d" % seen[o.name]
    return ops, skipped, specials


def emit_check(o):
    """raise Unsupported if a wrapper cannot be generated"""
    for n, t in o.args:
        base = strip_ref(t)
        if base.kind == "ref":
            raise Unsupported("nested reference")
        if base.kind == "slice" and t.kind != "ref":
            raise Unsupported("bare slice")
        base.ty()
    r = strip_ref(o.ret)
    if r.kind in ("slice", "ref"):
        raise Unsupported("returns " + r.kind)
    r.ty()


def gen_op(i, o):
    lines = ["fn op_%d(a: &[Val]) -> Vec<Val> {" % i]
    call_args, post = [], []
    in_tys = []
    out_tys = []
    for k, (n, t) in enumerate(o.args):
        base = strip_ref(t)
        if base.kind == "slice":
            lines.append("    let %sa%d: Vec<%s> = V::from_val(&a[%d]);" % ("mut " if t.mut else "", k, base.elem.rust(), k))
            call_args.append("&mut a%d[..]" % k if t.mut else "&a%d[..]" % k)
        else:
            mut = "mut " if (t.kind == "ref" and t.mut) else ""
            lines.append("    let %sa%d: %s = V::from_val(&a[%d]);" % (mut, k, base.rust(), k))
            call_args.append(("&mut a%d" % k) if mut else ("&a%d" % k if t.kind == "ref" else "a%d" % k))
        in_tys.append(base.ty())
        if t.kind == "ref" and t.mut:
            post.append("V::into_val(a%d)" % k)
            out_tys.append(base.ty())
    r = o.ret
    call = "%s(%s)" % (o.callee, ", ".join(call_args))
    rb = strip_ref(r)
    if rb.kind == "unit":
        lines.append("    %s;" % call)
        lines.append("    let mut out: Vec<Val> = Vec::new();")
    else:
        if r.kind == "ref":
            lines.append("    let r: %s = { let p = %s; (*p).clone() };" % (rb.rust(), call))
        else:
            lines.append("    let r: %s = %s;" % (rb.rust(), call))
        if rb.kind == "tup":
            lines.append("    let mut out: Vec<Val> = match V::into_val(r) { Val::Tup(v) => v, o => vec![o] };")
        else:
            lines.append("    let mut out: Vec<Val> = vec![V::into_val(r)];")
    ret_tys = [x.ty() for x in rb.items] if rb.kind == "tup" else ([] if rb.kind == "unit" else [rb.ty()])
    for p in post:
        lines.append("    out.push(%s);" % p)
    lines.append("    out")
    lines.append("}")
    row = ('    OpDesc { name: %s, owner: %s, fname: %s, is_trait: %s, args: &[%s], arg_names: &[%s], outs: &[%s], f: op_%d },'
           % (json.dumps(o.name), json.dumps(o.owner), json.dumps(o.fname), "true" if o.trait else "false",
              ", ".join(in_tys), ", ".join(json.dumps(n) for n, _ in o.args), ", ".join(ret_tys + out_tys), i))
    return "\n".join(lines), row


# flags {none, +, #, 0} x width {none, 12} x precision {none, .0, .4}, plus alignment / fill variants
FMT_SPECS = [f + w + p for f in ("", "+", "#", "0") for w in ("", "12") for p in ("", ".0", ".4")] + ["<9", "^15.2", "*>20", ">1", "-<7.1"]
FMT_SPECS = [x for x in FMT_SPECS if x not in ("-<7.1",)]  # '-' is reserved/unused by std; keep the list valid

FIELDS = {
    2: ["x", "y"], 3: ["x", "y", "z"], 4: ["x", "y", "z", "w"],
}
MAT_COLS = {"Mat2": ("Vec2", 2), "Mat3": ("Vec3", 3), "Mat3A": ("Vec3A", 3), "Mat4": ("Vec4", 4),
            "DMat2": ("DVec2", 2), "DMat3": ("DVec3", 3), "DMat4": ("DVec4", 4),
            "Affine2": ("Vec2", 3), "Affine3A": ("Vec3A", 4), "DAffine2": ("DVec2", 3), "DAffine3": ("DVec3", 4)}
AFFINE_PARTS = {"Affine2": ("matrix2", "Mat2", "Vec2"), "Affine3A": ("matrix3", "Mat3A", "Vec3A"),
                "DAffine2": ("matrix2", "DMat2", "DVec2"), "DAffine3": ("matrix3", "DMat3", "DVec3")}
AXES = ["x_axis", "y_axis", "z_axis", "w_axis"]


def gen_extras(start, want_types, specials):
    """hand-shaped wrappers: field reads/writes, fmt, Sum/Product, Hash, map, optional-feature code"""
    out_fns, rows = [], []
    i = start

    def add(name, owner, fname, in_tys, out_tys, body, arg_names, cfg=None):
        nonlocal i
        attr = ("#[cfg(%s)]\n" % cfg) if cfg else ""
        out_fns.append("%sfn op_%d(a: &[Val]) -> Vec<Val> {\n%s\n}" % (attr, i, body))
        rows.append('    %sOpDesc { name: %s, owner: %s, fname: %s, is_trait: true, args: &[%s], arg_names: &[%s], outs: &[%s], f: op_%d },'
                    % (("#[cfg(%s)] " % cfg) if cfg else "", json.dumps(name), json.dumps(owner), json.dumps(fname), ", ".join(in_tys),
                       ", ".join(json.dumps(n) for n in arg_names), ", ".join(out_tys), i))
        i += 1

    # optional-feature code that consumes the padded types (public API when the feature is on): serde, mint, approx
    IO = 'feature = "interop"'
    f32t = "Ty::S(Elem::F32)"
    for t in ("Vec3A", "Mat3A", "Affine3A"):
        g = "Ty::G(TyId::%s)" % t
        add("serde_json::to_string(&%s)" % t, t, "serde_json", [g], ["Ty::Str"],
            "    let s: glam::%s = V::from_val(&a[0]);\n    vec![Val::Str(serde_json::to_string(&s).unwrap_or_else(|e| format!(\"<error {e}>\")))]" % t, ["self"], IO)
        for m in ("abs_diff_eq", "relative_eq", "ulps_eq"):
            call = {"abs_diff_eq": "approx::AbsDiffEq::abs_diff_eq(&x, &y, e)", "relative_eq": "approx::RelativeEq::relative_eq(&x, &y, e, e)",
                    "ulps_eq": "approx::UlpsEq::ulps_eq(&x, &y, e, 4)"}[m]
            add("approx::%s(&%s, &%s, eps)" % (m, t, t), t, "approx_" + m, [g, g, f32t], ["Ty::S(Elem::Bool)"],
                "    let x: glam::%s = V::from_val(&a[0]);\n    let y: glam::%s = V::from_val(&a[1]);\n    let e: f32 = V::from_val(&a[2]);\n    vec![Val::Bool(%s)]" % (t, t, call),
                ["a", "b", "eps"], IO)
    gv = "Ty::G(TyId::Vec3A)"
    for mt in ("Vector3", "Point3"):
        add("mint::%s::<f32>::from(Vec3A)" % mt, "Vec3A", "mint", [gv], ["Ty::Arr(&Ty::S(Elem::F32), 3)"],
            "    let s: glam::Vec3A = V::from_val(&a[0]);\n    let m: mint::%s<f32> = s.into();\n    vec![V::into_val([m.x, m.y, m.z])]" % mt, ["self"], IO)
    gm = "Ty::G(TyId::Mat3A)"
    for mt in ("ColumnMatrix3", "RowMatrix3"):
        add("mint::%s::<f32>::from(Mat3A)" % mt, "Mat3A", "mint", [gm], ["Ty::Arr(&Ty::S(Elem::F32), 9)"],
            "    let s: glam::Mat3A = V::from_val(&a[0]);\n    let m: mint::%s<f32> = s.into();\n    vec![V::into_val([m.x.x, m.x.y, m.x.z, m.y.x, m.y.y, m.y.z, m.z.x, m.z.y, m.z.z])]" % mt, ["self"], IO)

    for t in sorted(want_types):
        if t not in VEC:
            continue
        elem, n, kind = VEC[t]
        g = "Ty::G(TyId::%s)" % t
        se = "Ty::S(Elem::%s)" % PRIMS[elem]
        sp = specials.get(t, set())
        has = lambda tr: any(s[0] == tr for s in sp)
        # field reads / writes
        if kind in ("vec", "quat") or (kind == "bvec" and t in ("BVec2", "BVec3", "BVec4")):
            for f in FIELDS[n]:
                add("%s.%s (field read)" % (t, f), t, "field_" + f, [g], [se],
                    "    let s: glam::%s = V::from_val(&a[0]);\n    vec![V::into_val(s.%s)]" % (t, f), ["self"])
                add("%s.%s = v (field write)" % (t, f), t, "set_field_" + f, [g, se], [g],
                    "    let mut s: glam::%s = V::from_val(&a[0]);\n    let v: %s = V::from_val(&a[1]);\n    s.%s = v;\n    vec![V::into_val(s)]" % (t, elem, f),
                    ["self", "v"])
        if t in MAT_COLS:
            ct, ncols = MAT_COLS[t]
            cg = "Ty::G(TyId::%s)" % ct
            for f in AXES[:ncols]:
                add("%s.%s (field read)" % (t, f), t, "field_" + f, [g], [cg],
                    "    let s: glam::%s = V::from_val(&a[0]);\n    vec![V::into_val(s.%s)]" % (t, f), ["self"])
                add("%s.%s = v (field write)" % (t, f), t, "set_field_" + f, [g, cg], [g],
                    "    let mut s: glam::%s = V::from_val(&a[0]);\n    let v: glam::%s = V::from_val(&a[1]);\n    s.%s = v;\n    vec![V::into_val(s)]" % (t, ct, f),
                    ["self", "v"])
        if t in AFFINE_PARTS:
            mf, mt, vt = AFFINE_PARTS[t]
            add("%s.%s (field read)" % (t, mf), t, "field_" + mf, [g], ["Ty::G(TyId::%s)" % mt],
                "    let s: glam::%s = V::from_val(&a[0]);\n    vec![V::into_val(s.%s)]" % (t, mf), ["self"])
            add("%s.translation (field read)" % t, t, "field_translation", [g], ["Ty::G(TyId::%s)" % vt],
                "    let s: glam::%s = V::from_val(&a[0]);\n    vec![V::into_val(s.translation)]" % t, ["self"])
        # formatting
        for tr, fmts in (("Display", ["{}", "{:.3}", "{:>9.1}"]), ("Debug", ["{:?}", "{:#?}", "{:.2?}"])):
            if has(tr):
                for f in fmts:
                    add("<%s as %s>::fmt \"%s\"" % (t, tr, f), t, "fmt", [g], ["Ty::Str"],
                        "    let s: glam::%s = V::from_val(&a[0]);\n    vec![Val::Str(format!(\"%s\", s))]" % (t, f), ["self"])
        # formatting into a caller-supplied sink that fails at its k-th write_str (usize::MAX: never)
        for tr, spec in (("Display", "{}"), ("Display", "{:.2}"), ("Debug", "{:?}"), ("Debug", "{:#?}")):
            if has(tr):
                add("<%s as %s>::fmt \"%s\" into failing sink" % (t, tr, spec), t, "fmt_sink", [g, "Ty::S(Elem::Usize)"],
                    ["Ty::Str", "Ty::S(Elem::Bool)", "Ty::S(Elem::Usize)", "Ty::S(Elem::Usize)"],
                    "    let s: glam::%s = V::from_val(&a[0]);\n    let k: usize = V::from_val(&a[1]);\n"
                    "    let mut sink = crate::sink::FailingSink::new(if k == usize::MAX { None } else { Some(k) });\n"
                    "    let r = core::fmt::write(&mut sink, format_args!(\"%s\", s));\n"
                    "    vec![Val::Str(sink.written.clone()), Val::Bool(r.is_err()), Val::Usize(sink.calls), Val::Usize(sink.calls_after_failure)]" % (t, spec),
                    ["self", "fail_at"])
        # the Formatter is an input too: a grid of format specs (flags x width x precision) selected by index
        for tr, q in (("Display", ""), ("Debug", "?")):
            if has(tr):
                arms = "\n".join("        %d => format!(\"{:%s%s}\", s)," % (k, spec, q) for k, spec in enumerate(FMT_SPECS))
                add("<%s as %s>::fmt with format spec #k" % (t, tr), t, "fmt_spec", [g, "Ty::S(Elem::Usize)"], ["Ty::Str"],
                    "    let s: glam::%s = V::from_val(&a[0]);\n    let k: usize = V::from_val(&a[1]);\n    let r = match k %% %d {\n%s\n        _ => unreachable!(),\n    };\n    vec![Val::Str(r)]"
                    % (t, len(FMT_SPECS), arms), ["self", "spec"])
        # Sum / Product over a caller-supplied iterator (by value and by reference)
        for tr, m in (("Sum", "sum"), ("Product", "product")):
            for (tn, arg) in sorted(sp):
                if tn != tr:
                    continue
                byref = arg.startswith("&")
                # the iterator's length is an input too: empty, one, three, five items
                for k in (0, 1, 3, 5):
                    names = ["i0", "i1", "i2", "i3", "i4"][:k]
                    lets = "".join("    let %s: glam::%s = V::from_val(&a[%d]);\n" % (nm, t, i) for i, nm in enumerate(names))
                    arr = "[%s]" % ", ".join(names)
                    it = ("%s.iter()" % arr) if byref else ("%s.into_iter()" % arr)
                    if k == 0:
                        it = "core::iter::empty::<&glam::%s>()" % t if byref else "core::iter::empty::<glam::%s>()" % t
                    add("<%s as %s<%s>>::%s over %d items" % (t, tr, arg or "Self", m, k), t, m, [g] * k, [g],
                        "%s    let r: glam::%s = %s.%s();\n    vec![V::into_val(r)]" % (lets, t, it, m), names)
                # ... and long ones: a, b, a, b, ... of length ITER_LENS[k] (around powers of two up to 2^16: blocked /
                # pairwise / unrolled summation has its boundaries there)
                ctor = "(0..n).map(|i| &items[i % 2])" if byref else "(0..n).map(|i| items[i % 2])"
                add("<%s as %s<%s>>::%s over ITER_LENS[k] items" % (t, tr, arg or "Self", m), t, m + "_n", [g, g, "Ty::S(Elem::Usize)"], [g],
                    "    let items: [glam::%s; 2] = [V::from_val(&a[0]), V::from_val(&a[1])];\n    let k: usize = V::from_val(&a[2]);\n"
                    "    let n = ITER_LENS[k %% ITER_LENS.len()];\n    let r: glam::%s = %s.%s();\n    vec![V::into_val(r)]" % (t, t, ctor, m), ["a", "b", "len_index"])
        # provided trait methods that an impl may override behind the back of the required one
        if has("PartialEq"):
            add("<%s as PartialEq>::ne (a != b)" % t, t, "ne", [g, g], ["Ty::S(Elem::Bool)"],
                "    let x: glam::%s = V::from_val(&a[0]);\n    let y: glam::%s = V::from_val(&a[1]);\n    #[allow(clippy::partialeq_ne_impl)]\n    let r = x != y;\n    vec![Val::Bool(r)]" % (t, t), ["a", "b"])
        if has("Clone"):
            add("<%s as Clone>::clone_from" % t, t, "clone_from", [g, g], [g],
                "    let mut x: glam::%s = V::from_val(&a[0]);\n    let y: glam::%s = V::from_val(&a[1]);\n    x.clone_from(&y);\n    vec![V::into_val(x)]" % (t, t), ["self", "source"])
        if has("Hash"):
            add("<%s as Hash>::hash" % t, t, "hash", [g], ["Ty::S(Elem::U64)"],
                "    let s: glam::%s = V::from_val(&a[0]);\n    vec![Val::U64(crate::ops::hash_of(&s))]" % t, ["self"])
            # containers hash their elements through the provided method `hash_slice`, which an impl may override
            add("<%s as Hash>::hash_slice (hash of [a, b])" % t, t, "hash_slice", [g, g], ["Ty::S(Elem::U64)"],
                "    let x: glam::%s = V::from_val(&a[0]);\n    let y: glam::%s = V::from_val(&a[1]);\n    vec![Val::U64(crate::ops::hash_of(&[x, y]))]" % (t, t), ["a", "b"])
        if kind == "vec" and elem in ("f32", "f64"):
            # the closure is caller code: what it is called with (values, order, how often) is observable too
            add("%s::map (recording closure |e| e * 2 + 1)" % t, t, "map", [g], [g, "Ty::Slice(Elem::%s)" % PRIMS[elem]],
                "    let s: glam::%s = V::from_val(&a[0]);\n    let seen: core::cell::RefCell<Vec<%s>> = core::cell::RefCell::new(Vec::new());\n"
                "    let r = s.map(|e| { seen.borrow_mut().push(e); e * 2.0 + 1.0 });\n    vec![V::into_val(r), V::into_val(seen.into_inner())]" % (t, elem), ["self"])
    return out_fns, rows, i


# iterator lengths for Sum / Product; ascending, the first ITER_LENS_SMALL entries are cheap enough for the interpreter
ITER_LENS = [2, 3, 4, 7, 8, 9, 15, 16, 17, 31, 32, 33, 63, 64, 65, 127, 128, 129, 255, 256, 257, 511, 512, 513, 1023, 1024, 1025,
             4095, 4096, 4097, 16383, 16384, 16385, 32767, 32768, 32769, 65535, 65536, 65537, 100003]

INT_TYPES = [t for t, (e, n, k) in VEC.items() if k == "vec" and e not in ("f32", "f64")]


def gen_int_table(doc):
    """Integer-vector operations whose shape involves a second glam type: TryFrom conversions, shifts by vectors,
    mixed-sign wrapping/saturating/checked families, `as_*` casts. Emitted as macro calls for c18i.rs."""
    idx = doc["index"]
    lines = []
    seen = set()
    for key in sorted(idx, key=lambda k: int(k)):
        it = idx[key]
        if it.get("crate_id") != 0 or "impl" not in it["inner"]:
            continue
        im = it["inner"]["impl"]
        if im.get("blanket_impl") or im.get("is_synthetic"):
            continue
        try:
            for_t = parse_type(im["for"], None, {})
        except Unsupported:
            continue
        if for_t.kind != "glam" or for_t.name not in INT_TYPES:
            continue
        T_ = for_t.name
        trait = im["trait"]
        tname = trait["path"].split("::")[-1] if trait else None
        targs = []
        if trait and trait.get("args") and "angle_bracketed" in trait["args"]:
            for a in trait["args"]["angle_bracketed"]["args"]:
                if "type" in a:
                    try:
                        targs.append(parse_type(a["type"], for_t, {}))
                    except Unsupported:
                        targs.append(None)
        if tname == "TryFrom" and targs and targs[0] is not None and targs[0].kind == "glam" and targs[0].name in INT_TYPES:
            lines.append("    tryfrom!(v, %s, %s);" % (T_, targs[0].name))
        elif tname in ("Shl", "Shr") and targs and targs[0] is not None and targs[0].kind == "glam" and targs[0].name in INT_TYPES:
            lines.append("    shiftv!(v, %s, %s, %s, %s);" % (T_, targs[0].name, tname, "<<" if tname == "Shl" else ">>"))
        elif trait is None:
            for iid in im["items"]:
                x = idx.get(str(iid))
                if not x or "function" not in x["inner"] or x.get("visibility") != "public":
                    continue
                fn = x["inner"]["function"]
                try:
                    args = [(n, parse_type(t, for_t, {})) for n, t in fn["sig"]["inputs"]]
                    ret = parse_type(fn["sig"]["output"], for_t, {})
                except Unsupported:
                    continue
                name = x["name"]
                if len(args) == 2 and args[0][0] == "self" and args[1][1].kind == "glam" and args[1][1].name in INT_TYPES and args[1][1].name != T_:
                    rhs = args[1][1].name
                    if ret.kind == "glam" and ret.name == T_:
                        lines.append("    mixed!(v, %s, %s, %s);" % (T_, rhs, name))
                    elif ret.kind == "opt" and ret.inner.kind == "glam" and ret.inner.name == T_:
                        lines.append("    mixed_checked!(v, %s, %s, %s);" % (T_, rhs, name))
                elif len(args) == 1 and strip_ref(args[0][1]).kind == "glam" and name.startswith("as_") and ret.kind == "glam" and ret.name in INT_TYPES:
                    lines.append("    cast!(v, %s, %s, %s);" % (T_, ret.name, name))
    out = []
    for l in lines:
        if l not in seen:
            seen.add(l)
            out.append(l)
    return out


def write_if_changed(path, text):
    """keep the mtime of an unchanged generated file (cargo rebuilds on mtime)"""
    if os.path.exists(path) and open(path).read() == text:
        return
    open(path, "w").write(text)


def emit_table(doc, want, path):
    ops, skipped, specials = build_ops(doc, set(want))
    fns, rows = [], []
    for i, o in enumerate(ops):
        f, r = gen_op(i, o)
        fns.append(f)
        rows.append(r)
    xf, xr, total = gen_extras(len(ops), want, specials)
    src = ["pub const N_FMT_SPECS: usize = %d;" % len(FMT_SPECS), "pub const ITER_LENS: &[usize] = &%s;" % json.dumps(ITER_LENS), "// @generated by /verif/apigen.py from rustdoc JSON of the glam working tree. Do not edit.",
           "#[allow(unused_mut, unused_variables, clippy::all)]", "mod generated_fns {", "use super::*;"]
    src += [f.replace("fn op_", "pub fn op_", 1) for f in fns + xf]
    src += ["}", "use generated_fns::*;", "pub static OPS: &[OpDesc] = &["] + rows + xr + ["];"]
    write_if_changed(path, "\n".join(src) + "\n")
    return ops, skipped, total


def main():
    if len(sys.argv) < 4:
        print("usage: apigen.py <glam.json> <out.rs> <out_api.json> [--all-float]", file=sys.stderr)
        return 2
    doc = json.load(open(sys.argv[1]))
    PATHS.update(doc.get("paths", {}))
    want = sorted(set(FLOAT_TYPES + PADDED + ["BVec2", "BVec3", "BVec4", "BVec4A"]))
    ops, skipped, total = emit_table(doc, want, sys.argv[2])
    # the same for the 27 integer vector types: a second table of the same shape (a build selects one through GLAMSIM_OPS)
    iops, iskipped, itotal = emit_table(doc, sorted(INT_TYPES), os.path.join(os.path.dirname(sys.argv[2]), "intops_generated.rs"))
    int_lines = gen_int_table(doc)
    write_if_changed(os.path.join(os.path.dirname(sys.argv[2]), "int_generated.rs"),
        "// @generated by /verif/apigen.py: integer-vector operations involving a second glam type\n"
        "pub fn generated_int_ops(v: &mut Vec<IntOp>) {\n" + "\n".join(int_lines) + "\n}\n")
    # skipped generic fns that the extras cover by hand are not "uncovered"
    covered_by_hand = ("::map", "::sum", "::product", "::fmt", "::hash")
    uncovered = [s for s in skipped if not s["fn"].endswith(covered_by_hand)]
    api = {
        "ops": total,
        "from_signatures": len(ops),
        "hand_shaped": total - len(ops),
        "op_names": [o.name for o in ops],
        "uncovered_api": sorted(uncovered, key=lambda s: s["fn"]),
        "types": want,
        "int_table": {"ops": itotal, "from_signatures": len(iops), "types": sorted(INT_TYPES),
                      "uncovered_api": sorted([x for x in iskipped if not x["fn"].endswith(covered_by_hand)], key=lambda x: x["fn"])},
    }
    json.dump(api, open(sys.argv[3], "w"), indent=1)
    print("apigen: %d ops (%d from signatures, %d hand-shaped), %d signatures outside the vocabulary; integer table %d ops"
          % (total, len(ops), total - len(ops), len(uncovered), itotal), file=sys.stderr)
    return 0


if __name__ == "__main__":
    sys.exit(main())
