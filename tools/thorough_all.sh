#!/bin/bash
cd "$(dirname "$0")/.."
for p in ${@:-C19 C18 C17 C08}; do
  /usr/bin/time -f "WALL $p %es" python3 check.py $p --tier thorough 2>&1 | grep -v "^\[check\] built\|^\[check\] api"
  echo "EXIT $p ${PIPESTATUS[0]}"
done
