#!/bin/bash
# regress_seeds.sh [id ...] : re-run the quick checks against stored seeded changes (default: all), two at a time.
# Prints one line per seed: caught=YES/NO and the first violation classes.
cd "$(dirname "$0")/.."
ids=("$@")
if [ ${#ids[@]} -eq 0 ]; then ids=($(ls seeded)); fi
args=()
for id in "${ids[@]}"; do
  prop=$(python3 -c "import json;print(json.load(open('seeded/$id/meta.json'))['property'])")
  args+=("seeded/$id/patch.diff $prop $id")
done
printf '%s\n' "${args[@]}" | xargs -P 2 -I{} bash -c 'set -- {}; out=$(python3 tools/run_mutant.py $1 $2 2>&1); cls=$(echo "$out" | grep "class:" | head -3 | sed "s/ *class: //" | tr "\n" ";"); rc=$(echo "$out" | grep -o "^== .* exit [0-9]*" | grep -o "[0-9]*$" | head -1); echo "$3 $2 $([ "$rc" = 1 ] && echo caught=YES || ([ "$rc" = 0 ] && echo caught=NO || echo HARNESS-ERROR exit=$rc)) $cls"'
