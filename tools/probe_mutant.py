#!/usr/bin/env python3
"""probe_mutant.py <patch> <config> <subcommand args...>
Targeted sensitivity probe: apply a patch to a scratch copy of /repo (outside /repo and /verif), build ONE configuration of
the simulator against it, run ONE simulator sub-command, print the violations, remove the copy and its build output.
(tools/run_mutant.py runs a whole registered check instead.)"""
import sys, os, subprocess, shutil, uuid, json
patch, cfg, args = os.path.abspath(sys.argv[1]), sys.argv[2], sys.argv[3:]
tag = uuid.uuid4().hex[:8]
copy, tgt = "/tmp/glam-probe-" + tag, "/tmp/glam-probe-target-" + tag
os.makedirs(copy)
try:
    subprocess.check_call("git -C /repo archive HEAD | tar -x -C " + copy, shell=True)
    subprocess.check_call(["patch", "-p1", "-s", "-d", copy, "-i", patch])
    env = dict(os.environ, GLAM_REPO=copy, GLAMSIM_TARGET=tgt)
    code = ("import importlib.util,json,sys\n"
            "spec=importlib.util.spec_from_file_location('check','/verif/check.py'); m=importlib.util.module_from_spec(spec); spec.loader.exec_module(m)\n"
            "cfg=%r; args=%r\n"
            "try:\n"
            "    r = m.run_miri(cfg, args) if cfg.startswith('miri') else m.run_sim(cfg, args)\n"
            "    print('violations:', r['violations_total'])\n"
            "    for v in r['violations'][:6]: print('  ', v['class'], '|', v['detail'][:300])\n"
            "except m.CrashFound as e:\n"
            "    print('violations: 1 (monitor)'); print('  ', e.what, '|', json.dumps(e.case))\n" % (cfg, args))
    subprocess.call([sys.executable, "-c", code], env=env)
finally:
    shutil.rmtree(copy, ignore_errors=True)
    shutil.rmtree(tgt, ignore_errors=True)
