#!/usr/bin/env python3
"""run_mutant.py <patch.diff> <PROP> [<PROP> ...] [--keep] [--tier quick]
Applies the patch to a scratch copy of /repo (outside /repo and /verif), runs the named checks
against it (GLAM_REPO=<copy>), prints their exit codes and VIOLATION lines, removes the copy and
its build output. Exit 0 iff every named check exited 1 (caught the change)."""
import sys, os, subprocess, shutil, hashlib, tempfile
args = [a for a in sys.argv[1:] if not a.startswith("--")]
patch, props = os.path.abspath(args[0]), args[1:]
keep = "--keep" in sys.argv
tag = hashlib.sha1(patch.encode()).hexdigest()[:8]
scratch = "/tmp/glam-mut-" + tag
if os.path.exists(scratch):
    shutil.rmtree(scratch)
subprocess.check_call(["rsync", "-a", "--exclude", "target", "--exclude", ".git", "/repo/", scratch + "/"])
r = subprocess.run(["patch", "-p1", "-s", "-d", scratch, "-i", patch])
if r.returncode != 0:
    sys.exit("patch does not apply")
env = dict(os.environ, GLAM_REPO=scratch, GLAMSIM_TARGET="/tmp/glam-mut-target-" + tag)
ok = True
for p in props:
    q = subprocess.run([sys.executable, "/verif/check.py", p, "--tier", "quick"], env=env, stdout=subprocess.PIPE, stderr=subprocess.PIPE, text=True)
    lines = [l for l in q.stdout.splitlines() if l.startswith(("VIOLATION", "KNOWN-FINDING", "  class", "  observed"))]
    print("== %s on %s: exit %d" % (p, os.path.basename(patch), q.returncode))
    for l in lines[:12]:
        print("   " + l[:300])
    if q.returncode == 2:
        print(q.stderr[-1500:])
    ok = ok and q.returncode == 1
if not keep:
    shutil.rmtree(scratch, ignore_errors=True)
    shutil.rmtree(env["GLAMSIM_TARGET"], ignore_errors=True)
sys.exit(0 if ok else 1)
