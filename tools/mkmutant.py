#!/usr/bin/env python3
"""mkmutant.py <name> <file> <<< JSON {"edits": [[old, new, count?], ...]} -> /verif/mutants/<name>.diff
Builds a unified diff against the current /repo working tree without touching /repo."""
import sys, json, os, difflib
name, rel = sys.argv[1], sys.argv[2]
spec = json.load(sys.stdin)
src = open(os.path.join("/repo", rel)).read()
out = src
for e in spec["edits"]:
    old, new = e[0], e[1]
    n = e[2] if len(e) > 2 else 1
    if out.count(old) < 1:
        sys.exit("pattern not found: %r" % old[:60])
    out = out.replace(old, new, n)
d = difflib.unified_diff(src.splitlines(True), out.splitlines(True), "a/" + rel, "b/" + rel)
p = os.path.join("/verif/mutants", name + ".diff")
mode = "a" if spec.get("append") else "w"
open(p, mode).write("".join(d))
print(p)
