#!/bin/bash
# run_mutants_batch.sh "<patch> <PROP>" ... : run several mutants, 3 at a time; prints one summary line each.
cd /verif
printf '%s\n' "$@" | xargs -P 3 -I{} bash -c 'set -- {}; out=$(python3 tools/run_mutant.py $1 $2 2>&1); rc=$?; cls=$(echo "$out" | grep "class:" | head -3 | sed "s/ *class: //" | tr "\n" ";"); echo "$(basename $1) $2 caught=$([ $rc -eq 0 ] && echo YES || echo NO) $cls"'
