#!/bin/bash
# seed_sweep.sh <first> <last> [props...] : run the quick checks under many seeds; any exit != 0 is printed.
# Used to look for false alarms on the unchanged tree (every seed must be silent).
first=$1; last=$2; shift 2
props=${@:-C08 C17 C18 C19}
cd "$(dirname "$0")/.."
bad=0
for s in $(seq $first $last); do
  for p in $props; do
    out=$(VERIF_SEED=$s python3 check.py $p --tier quick 2>&1); rc=$?
    if [ $rc -ne 0 ]; then bad=$((bad+1)); echo "SEED $s PROP $p EXIT $rc"; echo "$out" | grep -E "VIOLATION|HARNESS|class:|observed:" | head -10; fi
  done
  echo "seed $s done (bad so far: $bad)"
done
echo "SWEEP DONE bad=$bad"
