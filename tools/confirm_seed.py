#!/usr/bin/env python3
"""confirm_seed.py <id> <outdir> [--features f1,f2] [--toolchain nightly] [--miri [--release]] [--rustflags "<flags>"]
Independently confirm a seeded change: in a fresh scratch worktree of /repo (removed afterwards)
 1. apply patch.diff, run the pinned test suite (cargo test --workspace) -> must pass,
 2. add the demonstration as tests/demo_<id>.rs, run it -> must FAIL with the change,
 3. revert the change, run the demonstration again -> must PASS.
Prints a JSON summary."""
import sys, os, subprocess, shutil, json, re
sid, out = sys.argv[1], sys.argv[2]
feats = None
if "--features" in sys.argv:
    feats = sys.argv[sys.argv.index("--features") + 1]
tc = None
if "--toolchain" in sys.argv:
    tc = sys.argv[sys.argv.index("--toolchain") + 1]
wt = "/tmp/confirm-" + sid
env = dict(os.environ, CARGO_NET_OFFLINE="true", RUST_BACKTRACE="0", CARGO_TARGET_DIR=os.environ.get("CONFIRM_TARGET", "/tmp/confirm-target"))
def run(cmd, cwd=wt):
    p = subprocess.run(cmd, cwd=cwd, env=env, stdout=subprocess.PIPE, stderr=subprocess.STDOUT, text=True)
    return p.returncode, p.stdout
subprocess.run(["git", "-C", "/repo", "worktree", "remove", "--force", wt], stdout=subprocess.DEVNULL, stderr=subprocess.DEVNULL)
subprocess.check_call(["git", "-C", "/repo", "worktree", "add", "-q", wt, "HEAD"])
res = {"id": sid}
try:
    rc, o = run(["git", "apply", os.path.join(out, "patch.diff")])
    res["patch_applies"] = rc == 0
    rc, o = run(["cargo", "test", "--workspace", "--no-fail-fast", "--offline"])
    passed = sum(int(m) for m in re.findall(r"test result: ok\. (\d+) passed", o))
    failed = sum(int(m) for m in re.findall(r"(\d+) failed", o))
    res["suite_exit"] = rc
    res["suite_passed"] = passed
    res["suite_failed"] = failed
    demo = "demo_" + sid.lower().replace("-", "_")
    shutil.copyfile(os.path.join(out, "demo.rs"), os.path.join(wt, "tests", demo + ".rs"))
    cmd = ["cargo"] + (["+" + tc] if tc else []) + ["test", "--offline", "--test", demo]
    if "--miri" in sys.argv:
        # the demonstration needs the interpreter (undefined behaviour that does not crash natively)
        cmd = ["cargo", "+nightly", "miri", "test", "--offline"] + (["--release"] if "--release" in sys.argv else []) + ["--test", demo]
        env["MIRIFLAGS"] = "-Zmiri-disable-isolation"
        env["CARGO_TARGET_DIR"] = os.environ.get("CONFIRM_TARGET", "/tmp/confirm-target") + "-miri"
    if feats:
        cmd += ["--features", feats]
    if "--no-default-features" in sys.argv:
        cmd += ["--no-default-features"]
    if "--rustflags" in sys.argv:
        # the demonstration needs target features (the suite above ran with the default ones)
        env["RUSTFLAGS"] = sys.argv[sys.argv.index("--rustflags") + 1]
        env["CARGO_TARGET_DIR"] = os.environ.get("CONFIRM_TARGET", "/tmp/confirm-target") + "-flags"
    rc, o = run(cmd)
    res["demo_with_change_exit"] = rc
    res["demo_with_change_tail"] = [l for l in o.splitlines() if l.startswith("test ") or "panicked" in l][-6:]
    run(["git", "checkout", "--", "src"])
    rc, o = run(cmd)
    res["demo_without_change_exit"] = rc
    res["confirmed"] = bool(res["patch_applies"] and res["suite_exit"] == 0 and res["suite_failed"] == 0
                            and res["demo_with_change_exit"] != 0 and res["demo_without_change_exit"] == 0)
finally:
    subprocess.run(["git", "-C", "/repo", "worktree", "remove", "--force", wt], stdout=subprocess.DEVNULL, stderr=subprocess.DEVNULL)
    subprocess.run(["git", "-C", "/repo", "worktree", "prune"])
print(json.dumps(res, indent=1))
