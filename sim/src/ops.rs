//! The op table: one row per public function / operator / trait method of the float, mask and
//! padded types, generated from the working tree by /verif/apigen.py (rustdoc JSON).

#![allow(dead_code)]

use crate::val::*;

pub struct OpDesc {
    /// display name, unique: `Vec3A::dot`, `<Vec3A as Mul<&f32>>::mul`, ...
    pub name: &'static str,
    /// the type the impl is for (references stripped)
    pub owner: &'static str,
    pub fname: &'static str,
    pub is_trait: bool,
    pub args: &'static [Ty],
    pub arg_names: &'static [&'static str],
    /// return value (tuples flattened) followed by every `&mut` argument after the call
    pub outs: &'static [Ty],
    pub f: fn(&[Val]) -> Vec<Val>,
}

/// What a caller-supplied `Hasher` is fed (order and content), folded to one word.
pub fn hash_of<T: core::hash::Hash>(x: &T) -> u64 {
    struct Rec(crate::util::Digest);
    impl core::hash::Hasher for Rec {
        fn finish(&self) -> u64 {
            self.0.finish()
        }
        fn write(&mut self, bytes: &[u8]) {
            self.0.push_bytes(bytes);
        }
    }
    let mut h = Rec(Default::default());
    x.hash(&mut h);
    core::hash::Hasher::finish(&h)
}

include!(env!("GLAMSIM_OPS"));

pub fn find(name: &str) -> Option<usize> {
    OPS.iter().position(|o| o.name == name)
}
