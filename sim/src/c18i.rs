//! C18 (I) — "integer overflow or division by zero exactly where the primitive operation
//! panics". For every integer vector type and every lane-wise operator (vector∘vector,
//! vector∘scalar, scalar∘vector, compound assignment, unary minus, abs, div_euclid, rem_euclid)
//! the vector operation must panic iff the primitive operation panics on at least one lane *in
//! this very build* (so debug overflow checks and release wrapping are both judged against the
//! primitive's own behaviour), and when nothing panics the lanes must equal the primitive results.
//! Operands come from the integer lattice {0, 1, -1/MAX, MIN, MAX, 2} in every lane position.

#![allow(dead_code)]

use crate::report::{Summary, Violation};
use crate::rng::Rng;
use crate::util;
use crate::val::*;
use glam::*;
use serde_json::{json, Value as J};

type LaneOp = fn(u64, u64) -> u64;
type VecOp = fn(&[u64], &[u64]) -> Vec<u64>;

pub struct IntOp {
    pub name: String,
    pub ty: TyId,
    /// how many elements the right operand has (N for vector∘vector, 1 for scalar, 0 for unary)
    pub rhs_n: usize,
    pub lhs_scalar: bool,
    /// element kind of the right operand (differs from the vector's for shifts)
    pub rhs_elem: Elem,
    pub is_shift: bool,
    /// whole-operation reference (reductions): replaces the lane-wise primitive model when present
    pub fold: Option<VecOp>,
    pub vec: VecOp,
    pub prim: LaneOp,
}

macro_rules! binop {
    ($v:ident, $T:ident, $E:ty, $N:expr, $tr:ident, $m:ident, $am:ident, $sym:tt) => {
        // vector ∘ vector
        $v.push(IntOp { name: format!("<{} as {}>::{}", stringify!($T), stringify!($tr), stringify!($m)), ty: TyId::$T, rhs_n: $N, lhs_scalar: false, rhs_elem: <$E as Scalar>::KIND, is_shift: false, fold: None,
            vec: |a, b| { let (x, y) = (mk::<$T>(a), mk::<$T>(b)); bits(&(x $sym y)) },
            prim: |a, b| (<$E>::from_bits64(a) $sym <$E>::from_bits64(b)).to_bits64() });
        // vector ∘ &vector (reference forms share the implementation but are separate impls)
        $v.push(IntOp { name: format!("<{} as {}<&{}>>::{}", stringify!($T), stringify!($tr), stringify!($T), stringify!($m)), ty: TyId::$T, rhs_n: $N, lhs_scalar: false, rhs_elem: <$E as Scalar>::KIND, is_shift: false, fold: None,
            vec: |a, b| { let (x, y) = (mk::<$T>(a), mk::<$T>(b)); bits(&(&x $sym &y)) },
            prim: |a, b| (<$E>::from_bits64(a) $sym <$E>::from_bits64(b)).to_bits64() });
        // vector ∘ scalar
        $v.push(IntOp { name: format!("<{} as {}<{}>>::{}", stringify!($T), stringify!($tr), stringify!($E), stringify!($m)), ty: TyId::$T, rhs_n: 1, lhs_scalar: false, rhs_elem: <$E as Scalar>::KIND, is_shift: false, fold: None,
            vec: |a, b| { let x = mk::<$T>(a); bits(&(x $sym <$E>::from_bits64(b[0]))) },
            prim: |a, b| (<$E>::from_bits64(a) $sym <$E>::from_bits64(b)).to_bits64() });
        // scalar ∘ vector
        $v.push(IntOp { name: format!("<{} as {}<{}>>::{}", stringify!($E), stringify!($tr), stringify!($T), stringify!($m)), ty: TyId::$T, rhs_n: $N, lhs_scalar: true, rhs_elem: <$E as Scalar>::KIND, is_shift: false, fold: None,
            vec: |a, b| { let y = mk::<$T>(b); bits(&(<$E>::from_bits64(a[0]) $sym y)) },
            prim: |a, b| (<$E>::from_bits64(a) $sym <$E>::from_bits64(b)).to_bits64() });
        // compound assignment
        $v.push(IntOp { name: format!("<{} as {}Assign>::{}", stringify!($T), stringify!($tr), stringify!($am)), ty: TyId::$T, rhs_n: $N, lhs_scalar: false, rhs_elem: <$E as Scalar>::KIND, is_shift: false, fold: None,
            vec: |a, b| { let (mut x, y) = (mk::<$T>(a), mk::<$T>(b)); $am(&mut x, y); bits(&x) },
            prim: |a, b| (<$E>::from_bits64(a) $sym <$E>::from_bits64(b)).to_bits64() });
    };
}

macro_rules! shift {
    ($v:ident, $T:ident, $E:ty, $N:expr, $($S:ty),*) => {$(
        $v.push(IntOp { name: format!("<{} as Shl<{}>>::shl", stringify!($T), stringify!($S)), ty: TyId::$T, rhs_n: 1, lhs_scalar: false,
            rhs_elem: <$S as Scalar>::KIND, is_shift: true, fold: None,
            vec: |a, b| { let x = mk::<$T>(a); bits(&(x << <$S>::from_bits64(b[0]))) },
            prim: |a, b| (<$E>::from_bits64(a) << <$S>::from_bits64(b)).to_bits64() });
        $v.push(IntOp { name: format!("<{} as Shr<{}>>::shr", stringify!($T), stringify!($S)), ty: TyId::$T, rhs_n: 1, lhs_scalar: false,
            rhs_elem: <$S as Scalar>::KIND, is_shift: true, fold: None,
            vec: |a, b| { let x = mk::<$T>(a); bits(&(x >> <$S>::from_bits64(b[0]))) },
            prim: |a, b| (<$E>::from_bits64(a) >> <$S>::from_bits64(b)).to_bits64() });
    )*};
}
macro_rules! lane_method {
    ($v:ident, $T:ident, $E:ty, $N:expr, $($m:ident),*) => {$(
        $v.push(IntOp { name: format!("{}::{}", stringify!($T), stringify!($m)), ty: TyId::$T, rhs_n: $N, lhs_scalar: false,
            rhs_elem: <$E as Scalar>::KIND, is_shift: false, fold: None,
            vec: |a, b| { let (x, y) = (mk::<$T>(a), mk::<$T>(b)); bits(&x.$m(y)) },
            prim: |a, b| <$E>::from_bits64(a).$m(<$E>::from_bits64(b)).to_bits64() });
    )*};
}
macro_rules! checked_method {
    // `None` is treated like a panic on both sides: the vector op must be None iff some lane's primitive is None
    ($v:ident, $T:ident, $E:ty, $N:expr, $($m:ident),*) => {$(
        $v.push(IntOp { name: format!("{}::{}", stringify!($T), stringify!($m)), ty: TyId::$T, rhs_n: $N, lhs_scalar: false,
            rhs_elem: <$E as Scalar>::KIND, is_shift: false, fold: None,
            vec: |a, b| { let (x, y) = (mk::<$T>(a), mk::<$T>(b)); bits(&x.$m(y).expect("checked operation returned None")) },
            prim: |a, b| <$E>::from_bits64(a).$m(<$E>::from_bits64(b)).expect("checked operation returned None").to_bits64() });
    )*};
}

macro_rules! tryfrom {
    ($v:ident, $D:ident, $S:ident) => {
        $v.push(IntOp { name: format!("<{} as TryFrom<{}>>::try_from", stringify!($D), stringify!($S)), ty: TyId::$S, rhs_n: 0, lhs_scalar: false,
            rhs_elem: <<$S as GlamTy>::E as Scalar>::KIND, is_shift: false, fold: None,
            vec: |a, _| bits(&<$D as TryFrom<$S>>::try_from(mk::<$S>(a)).expect("vector TryFrom failed")),
            prim: |a, _| <<$D as GlamTy>::E as TryFrom<<$S as GlamTy>::E>>::try_from(<<$S as GlamTy>::E>::from_bits64(a)).expect("primitive TryFrom failed").to_bits64() });
    };
}
macro_rules! shiftv {
    ($v:ident, $T:ident, $R:ident, $tr:ident, $sym:tt) => {
        $v.push(IntOp { name: format!("<{} as {}<{}>>", stringify!($T), stringify!($tr), stringify!($R)), ty: TyId::$T, rhs_n: <$T as GlamTy>::N, lhs_scalar: false,
            rhs_elem: <<$R as GlamTy>::E as Scalar>::KIND, is_shift: true, fold: None,
            vec: |a, b| bits(&(mk::<$T>(a) $sym mk::<$R>(b))),
            prim: |a, b| (<<$T as GlamTy>::E>::from_bits64(a) $sym <<$R as GlamTy>::E>::from_bits64(b)).to_bits64() });
    };
}
macro_rules! mixed {
    ($v:ident, $T:ident, $R:ident, $m:ident) => {
        $v.push(IntOp { name: format!("{}::{}", stringify!($T), stringify!($m)), ty: TyId::$T, rhs_n: <$T as GlamTy>::N, lhs_scalar: false,
            rhs_elem: <<$R as GlamTy>::E as Scalar>::KIND, is_shift: false, fold: None,
            vec: |a, b| bits(&mk::<$T>(a).$m(mk::<$R>(b))),
            prim: |a, b| <<$T as GlamTy>::E>::from_bits64(a).$m(<<$R as GlamTy>::E>::from_bits64(b)).to_bits64() });
    };
}
macro_rules! mixed_checked {
    ($v:ident, $T:ident, $R:ident, $m:ident) => {
        $v.push(IntOp { name: format!("{}::{}", stringify!($T), stringify!($m)), ty: TyId::$T, rhs_n: <$T as GlamTy>::N, lhs_scalar: false,
            rhs_elem: <<$R as GlamTy>::E as Scalar>::KIND, is_shift: false, fold: None,
            vec: |a, b| bits(&mk::<$T>(a).$m(mk::<$R>(b)).expect("checked operation returned None")),
            prim: |a, b| <<$T as GlamTy>::E>::from_bits64(a).$m(<<$R as GlamTy>::E>::from_bits64(b)).expect("checked operation returned None").to_bits64() });
    };
}
macro_rules! cast {
    ($v:ident, $T:ident, $D:ident, $m:ident) => {
        $v.push(IntOp { name: format!("{}::{}", stringify!($T), stringify!($m)), ty: TyId::$T, rhs_n: 0, lhs_scalar: false,
            rhs_elem: <<$T as GlamTy>::E as Scalar>::KIND, is_shift: false, fold: None,
            vec: |a, _| bits(&mk::<$T>(a).$m()),
            prim: |a, _| (<<$T as GlamTy>::E>::from_bits64(a) as <$D as GlamTy>::E).to_bits64() });
    };
}
/// reductions, judged against the left fold the documentation spells out (`x + y + z`, `x * x' + y * y' + ...`)
macro_rules! reductions {
    ($v:ident, $T:ident, $E:ty, $N:expr) => {
        $v.push(IntOp { name: format!("{}::element_sum", stringify!($T)), ty: TyId::$T, rhs_n: 0, lhs_scalar: false,
            rhs_elem: <$E as Scalar>::KIND, is_shift: false,
            fold: Some(|a, _| { let e: Vec<$E> = a.iter().map(|x| <$E>::from_bits64(*x)).collect(); let mut s = e[0]; for x in &e[1..] { s = s + *x; } vec![s.to_bits64()] }),
            vec: |a, _| vec![mk::<$T>(a).element_sum().to_bits64()], prim: |a, _| a });
        $v.push(IntOp { name: format!("{}::element_product", stringify!($T)), ty: TyId::$T, rhs_n: 0, lhs_scalar: false,
            rhs_elem: <$E as Scalar>::KIND, is_shift: false,
            fold: Some(|a, _| { let e: Vec<$E> = a.iter().map(|x| <$E>::from_bits64(*x)).collect(); let mut s = e[0]; for x in &e[1..] { s = s * *x; } vec![s.to_bits64()] }),
            vec: |a, _| vec![mk::<$T>(a).element_product().to_bits64()], prim: |a, _| a });
        $v.push(IntOp { name: format!("{}::dot", stringify!($T)), ty: TyId::$T, rhs_n: $N, lhs_scalar: false,
            rhs_elem: <$E as Scalar>::KIND, is_shift: false,
            fold: Some(|a, b| { let mut s = <$E>::from_bits64(a[0]) * <$E>::from_bits64(b[0]); for i in 1..a.len() { s = s + <$E>::from_bits64(a[i]) * <$E>::from_bits64(b[i]); } vec![s.to_bits64()] }),
            vec: |a, b| vec![mk::<$T>(a).dot(mk::<$T>(b)).to_bits64()], prim: |a, _| a });
        $v.push(IntOp { name: format!("{}::length_squared", stringify!($T)), ty: TyId::$T, rhs_n: 0, lhs_scalar: false,
            rhs_elem: <$E as Scalar>::KIND, is_shift: false,
            fold: Some(|a, _| { let mut s = <$E>::from_bits64(a[0]) * <$E>::from_bits64(a[0]); for i in 1..a.len() { s = s + <$E>::from_bits64(a[i]) * <$E>::from_bits64(a[i]); } vec![s.to_bits64()] }),
            vec: |a, _| vec![mk::<$T>(a).length_squared().to_bits64()], prim: |a, _| a });
        $v.push(IntOp { name: format!("{}::manhattan_distance", stringify!($T)), ty: TyId::$T, rhs_n: $N, lhs_scalar: false,
            rhs_elem: <$E as Scalar>::KIND, is_shift: false,
            fold: Some(|a, b| { let mut s = <$E>::from_bits64(a[0]).abs_diff(<$E>::from_bits64(b[0])); for i in 1..a.len() { s = s + <$E>::from_bits64(a[i]).abs_diff(<$E>::from_bits64(b[i])); } vec![s.to_bits64()] }),
            vec: |a, b| vec![mk::<$T>(a).manhattan_distance(mk::<$T>(b)).to_bits64()], prim: |a, _| a });
        $v.push(IntOp { name: format!("{}::checked_manhattan_distance", stringify!($T)), ty: TyId::$T, rhs_n: $N, lhs_scalar: false,
            rhs_elem: <$E as Scalar>::KIND, is_shift: false,
            fold: Some(|a, b| { let mut s = <$E>::from_bits64(a[0]).abs_diff(<$E>::from_bits64(b[0])); for i in 1..a.len() { s = s.checked_add(<$E>::from_bits64(a[i]).abs_diff(<$E>::from_bits64(b[i]))).expect("checked operation returned None"); } vec![s.to_bits64()] }),
            vec: |a, b| vec![mk::<$T>(a).checked_manhattan_distance(mk::<$T>(b)).expect("checked operation returned None").to_bits64()], prim: |a, _| a });
        $v.push(IntOp { name: format!("{}::chebyshev_distance", stringify!($T)), ty: TyId::$T, rhs_n: $N, lhs_scalar: false,
            rhs_elem: <$E as Scalar>::KIND, is_shift: false,
            fold: Some(|a, b| { let mut s = <$E>::from_bits64(a[0]).abs_diff(<$E>::from_bits64(b[0])); for i in 1..a.len() { s = s.max(<$E>::from_bits64(a[i]).abs_diff(<$E>::from_bits64(b[i]))); } vec![s.to_bits64()] }),
            vec: |a, b| vec![mk::<$T>(a).chebyshev_distance(mk::<$T>(b)).to_bits64()], prim: |a, _| a });
    };
}

include!(env!("GLAMSIM_INT"));

macro_rules! bitop {
    ($v:ident, $T:ident, $E:ty, $N:expr, $tr:ident, $sym:tt) => {
        $v.push(IntOp { name: format!("<{} as {}>", stringify!($T), stringify!($tr)), ty: TyId::$T, rhs_n: $N, lhs_scalar: false,
            rhs_elem: <$E as Scalar>::KIND, is_shift: false, fold: None,
            vec: |a, b| bits(&(mk::<$T>(a) $sym mk::<$T>(b))),
            prim: |a, b| (<$E>::from_bits64(a) $sym <$E>::from_bits64(b)).to_bits64() });
        $v.push(IntOp { name: format!("<{} as {}<{}>>", stringify!($T), stringify!($tr), stringify!($E)), ty: TyId::$T, rhs_n: 1, lhs_scalar: false,
            rhs_elem: <$E as Scalar>::KIND, is_shift: false, fold: None,
            vec: |a, b| bits(&(mk::<$T>(a) $sym <$E>::from_bits64(b[0]))),
            prim: |a, b| (<$E>::from_bits64(a) $sym <$E>::from_bits64(b)).to_bits64() });
    };
}
/// Sum / Product over a caller-supplied iterator: documented as a fold from ZERO / ONE with `+` / `*`
macro_rules! iter_fold {
    ($v:ident, $T:ident, $E:ty, $N:expr) => {
        $v.push(IntOp { name: format!("<{} as Sum>::sum over [a, b]", stringify!($T)), ty: TyId::$T, rhs_n: $N, lhs_scalar: false,
            rhs_elem: <$E as Scalar>::KIND, is_shift: false,
            fold: Some(|a, b| (0..a.len()).map(|i| { let z: $E = 0; ((z + <$E>::from_bits64(a[i])) + <$E>::from_bits64(b[i])).to_bits64() }).collect()),
            vec: |a, b| bits(&[mk::<$T>(a), mk::<$T>(b)].into_iter().sum::<$T>()), prim: |a, _| a });
        $v.push(IntOp { name: format!("<{} as Sum<&{}>>::sum over [a, b]", stringify!($T), stringify!($T)), ty: TyId::$T, rhs_n: $N, lhs_scalar: false,
            rhs_elem: <$E as Scalar>::KIND, is_shift: false,
            fold: Some(|a, b| (0..a.len()).map(|i| { let z: $E = 0; ((z + <$E>::from_bits64(a[i])) + <$E>::from_bits64(b[i])).to_bits64() }).collect()),
            vec: |a, b| bits(&[mk::<$T>(a), mk::<$T>(b)].iter().sum::<$T>()), prim: |a, _| a });
        $v.push(IntOp { name: format!("<{} as Product>::product over [a, b]", stringify!($T)), ty: TyId::$T, rhs_n: $N, lhs_scalar: false,
            rhs_elem: <$E as Scalar>::KIND, is_shift: false,
            fold: Some(|a, b| (0..a.len()).map(|i| { let o: $E = 1; ((o * <$E>::from_bits64(a[i])) * <$E>::from_bits64(b[i])).to_bits64() }).collect()),
            vec: |a, b| bits(&[mk::<$T>(a), mk::<$T>(b)].into_iter().product::<$T>()), prim: |a, _| a });
        $v.push(IntOp { name: format!("<{} as Sum>::sum over []", stringify!($T)), ty: TyId::$T, rhs_n: 0, lhs_scalar: false,
            rhs_elem: <$E as Scalar>::KIND, is_shift: false,
            fold: Some(|a, _| vec![0u64; a.len()]),
            vec: |_, _| bits(&core::iter::empty::<$T>().sum::<$T>()), prim: |a, _| a });
    };
}

/// ... and over longer iterators a, b, a, b, ... (the length is an input too: a blocked or unrolled fold has its
/// boundaries at powers of two, and overflows at a different item than the documented left fold)
macro_rules! iter_fold_n {
    ($v:ident, $T:ident, $E:ty, $N:expr, $($L:literal),*) => {$(
        $v.push(IntOp { name: format!("<{} as Sum>::sum over {} items a, b, a, ...", stringify!($T), $L), ty: TyId::$T, rhs_n: $N, lhs_scalar: false,
            rhs_elem: <$E as Scalar>::KIND, is_shift: false,
            fold: Some(|a, b| (0..a.len()).map(|i| { let mut acc: $E = 0; for k in 0..$L { acc = acc + <$E>::from_bits64(if k % 2 == 0 { a[i] } else { b[i] }); } acc.to_bits64() }).collect()),
            vec: |a, b| { let it = [mk::<$T>(a), mk::<$T>(b)]; bits(&(0..$L).map(|k| it[k % 2]).sum::<$T>()) }, prim: |a, _| a });
        $v.push(IntOp { name: format!("<{} as Sum<&{}>>::sum over {} items a, b, a, ...", stringify!($T), stringify!($T), $L), ty: TyId::$T, rhs_n: $N, lhs_scalar: false,
            rhs_elem: <$E as Scalar>::KIND, is_shift: false,
            fold: Some(|a, b| (0..a.len()).map(|i| { let mut acc: $E = 0; for k in 0..$L { acc = acc + <$E>::from_bits64(if k % 2 == 0 { a[i] } else { b[i] }); } acc.to_bits64() }).collect()),
            vec: |a, b| { let it = [mk::<$T>(a), mk::<$T>(b)]; bits(&(0..$L).map(|k| &it[k % 2]).sum::<$T>()) }, prim: |a, _| a });
        $v.push(IntOp { name: format!("<{} as Product>::product over {} items a, b, a, ...", stringify!($T), $L), ty: TyId::$T, rhs_n: $N, lhs_scalar: false,
            rhs_elem: <$E as Scalar>::KIND, is_shift: false,
            fold: Some(|a, b| (0..a.len()).map(|i| { let mut acc: $E = 1; for k in 0..$L { acc = acc * <$E>::from_bits64(if k % 2 == 0 { a[i] } else { b[i] }); } acc.to_bits64() }).collect()),
            vec: |a, b| { let it = [mk::<$T>(a), mk::<$T>(b)]; bits(&(0..$L).map(|k| it[k % 2]).product::<$T>()) }, prim: |a, _| a });
        $v.push(IntOp { name: format!("<{} as Product<&{}>>::product over {} items a, b, a, ...", stringify!($T), stringify!($T), $L), ty: TyId::$T, rhs_n: $N, lhs_scalar: false,
            rhs_elem: <$E as Scalar>::KIND, is_shift: false,
            fold: Some(|a, b| (0..a.len()).map(|i| { let mut acc: $E = 1; for k in 0..$L { acc = acc * <$E>::from_bits64(if k % 2 == 0 { a[i] } else { b[i] }); } acc.to_bits64() }).collect()),
            vec: |a, b| { let it = [mk::<$T>(a), mk::<$T>(b)]; bits(&(0..$L).map(|k| &it[k % 2]).product::<$T>()) }, prim: |a, _| a });
    )*};
}

macro_rules! int_type {
    ($v:ident, $T:ident, $E:ty, $N:expr, signed=$s:tt) => {
        binop!($v, $T, $E, $N, Add, add, add_assign_shim, +);
        binop!($v, $T, $E, $N, Sub, sub, sub_assign_shim, -);
        binop!($v, $T, $E, $N, Mul, mul, mul_assign_shim, *);
        binop!($v, $T, $E, $N, Div, div, div_assign_shim, /);
        binop!($v, $T, $E, $N, Rem, rem, rem_assign_shim, %);
        shift!($v, $T, $E, $N, i8, i16, i32, i64, u8, u16, u32, u64);
        lane_method!($v, $T, $E, $N, wrapping_add, wrapping_sub, wrapping_mul, wrapping_div, saturating_add, saturating_sub, saturating_mul, saturating_div);
        checked_method!($v, $T, $E, $N, checked_add, checked_sub, checked_mul, checked_div);
        reductions!($v, $T, $E, $N);
        bitop!($v, $T, $E, $N, BitAnd, &);
        bitop!($v, $T, $E, $N, BitOr, |);
        bitop!($v, $T, $E, $N, BitXor, ^);
        $v.push(IntOp { name: format!("<{} as Not>::not", stringify!($T)), ty: TyId::$T, rhs_n: 0, lhs_scalar: false,
            rhs_elem: <$E as Scalar>::KIND, is_shift: false, fold: None,
            vec: |a, _| bits(&(!mk::<$T>(a))),
            prim: |a, _| (!<$E>::from_bits64(a)).to_bits64() });
        lane_method!($v, $T, $E, $N, min, max);
        iter_fold!($v, $T, $E, $N);
        iter_fold_n!($v, $T, $E, $N, 3, 5, 17, 129, 1025, 32769);
        int_type!(@signed $v, $T, $E, $N, $s);
    };
    (@signed $v:ident, $T:ident, $E:ty, $N:expr, y) => {
        $v.push(IntOp { name: format!("{}::div_euclid", stringify!($T)), ty: TyId::$T, rhs_n: $N, lhs_scalar: false, rhs_elem: <$E as Scalar>::KIND, is_shift: false, fold: None,
            vec: |a, b| { let (x, y) = (mk::<$T>(a), mk::<$T>(b)); bits(&x.div_euclid(y)) },
            prim: |a, b| <$E>::from_bits64(a).div_euclid(<$E>::from_bits64(b)).to_bits64() });
        $v.push(IntOp { name: format!("{}::rem_euclid", stringify!($T)), ty: TyId::$T, rhs_n: $N, lhs_scalar: false, rhs_elem: <$E as Scalar>::KIND, is_shift: false, fold: None,
            vec: |a, b| { let (x, y) = (mk::<$T>(a), mk::<$T>(b)); bits(&x.rem_euclid(y)) },
            prim: |a, b| <$E>::from_bits64(a).rem_euclid(<$E>::from_bits64(b)).to_bits64() });
        $v.push(IntOp { name: format!("{}::signum", stringify!($T)), ty: TyId::$T, rhs_n: 0, lhs_scalar: false,
            rhs_elem: <$E as Scalar>::KIND, is_shift: false, fold: None,
            vec: |a, _| { let x = mk::<$T>(a); bits(&x.signum()) },
            prim: |a, _| <$E>::from_bits64(a).signum().to_bits64() });
        $v.push(IntOp { name: format!("{}::distance_squared", stringify!($T)), ty: TyId::$T, rhs_n: $N, lhs_scalar: false,
            rhs_elem: <$E as Scalar>::KIND, is_shift: false,
            fold: Some(|a, b| { let d: Vec<$E> = (0..a.len()).map(|i| <$E>::from_bits64(a[i]) - <$E>::from_bits64(b[i])).collect(); let mut s = d[0] * d[0]; for x in &d[1..] { s = s + *x * *x; } vec![s.to_bits64()] }),
            vec: |a, b| vec![mk::<$T>(a).distance_squared(mk::<$T>(b)).to_bits64()], prim: |a, _| a });
        $v.push(IntOp { name: format!("<{} as Neg>::neg", stringify!($T)), ty: TyId::$T, rhs_n: 0, lhs_scalar: false, rhs_elem: <$E as Scalar>::KIND, is_shift: false, fold: None,
            vec: |a, _| { let x = mk::<$T>(a); bits(&(-x)) },
            prim: |a, _| (-<$E>::from_bits64(a)).to_bits64() });
        $v.push(IntOp { name: format!("{}::abs", stringify!($T)), ty: TyId::$T, rhs_n: 0, lhs_scalar: false, rhs_elem: <$E as Scalar>::KIND, is_shift: false, fold: None,
            vec: |a, _| { let x = mk::<$T>(a); bits(&x.abs()) },
            prim: |a, _| <$E>::from_bits64(a).abs().to_bits64() });
    };
    (@signed $v:ident, $T:ident, $E:ty, $N:expr, n) => {};
}

// compound assignment spelled as plain functions so the macro can name them
fn add_assign_shim<A: core::ops::AddAssign<B>, B>(a: &mut A, b: B) { *a += b }
fn sub_assign_shim<A: core::ops::SubAssign<B>, B>(a: &mut A, b: B) { *a -= b }
fn mul_assign_shim<A: core::ops::MulAssign<B>, B>(a: &mut A, b: B) { *a *= b }
fn div_assign_shim<A: core::ops::DivAssign<B>, B>(a: &mut A, b: B) { *a /= b }
fn rem_assign_shim<A: core::ops::RemAssign<B>, B>(a: &mut A, b: B) { *a %= b }

fn mk<T: GlamTy>(b: &[u64]) -> T {
    let e: Vec<T::E> = b.iter().map(|x| T::E::from_bits64(*x)).collect();
    T::from_elems(&e)
}
fn bits<T: GlamTy>(x: &T) -> Vec<u64> {
    x.to_elems().iter().map(|e| e.to_bits64()).collect()
}

pub fn int_ops() -> Vec<IntOp> {
    let mut v = Vec::new();
    int_type!(v, I8Vec2, i8, 2, signed = y);
    int_type!(v, I8Vec3, i8, 3, signed = y);
    int_type!(v, I8Vec4, i8, 4, signed = y);
    int_type!(v, U8Vec2, u8, 2, signed = n);
    int_type!(v, U8Vec3, u8, 3, signed = n);
    int_type!(v, U8Vec4, u8, 4, signed = n);
    int_type!(v, I16Vec2, i16, 2, signed = y);
    int_type!(v, I16Vec3, i16, 3, signed = y);
    int_type!(v, I16Vec4, i16, 4, signed = y);
    int_type!(v, U16Vec2, u16, 2, signed = n);
    int_type!(v, U16Vec3, u16, 3, signed = n);
    int_type!(v, U16Vec4, u16, 4, signed = n);
    int_type!(v, IVec2, i32, 2, signed = y);
    int_type!(v, IVec3, i32, 3, signed = y);
    int_type!(v, IVec4, i32, 4, signed = y);
    int_type!(v, UVec2, u32, 2, signed = n);
    int_type!(v, UVec3, u32, 3, signed = n);
    int_type!(v, UVec4, u32, 4, signed = n);
    int_type!(v, I64Vec2, i64, 2, signed = y);
    int_type!(v, I64Vec3, i64, 3, signed = y);
    int_type!(v, I64Vec4, i64, 4, signed = y);
    int_type!(v, U64Vec2, u64, 2, signed = n);
    int_type!(v, U64Vec3, u64, 3, signed = n);
    int_type!(v, U64Vec4, u64, 4, signed = n);
    int_type!(v, USizeVec2, usize, 2, signed = n);
    int_type!(v, USizeVec3, usize, 3, signed = n);
    int_type!(v, USizeVec4, usize, 4, signed = n);
    generated_int_ops(&mut v);
    v
}

const N_INT_LATTICE: usize = 6;

/// `v` converted to the element kind the way `as` would, in the model's storage convention
fn scalar_bits_of(e: Elem, v: i64) -> u64 {
    match e {
        Elem::I8 => v as i8 as u64,
        Elem::U8 => v as u8 as u64,
        Elem::I16 => v as i16 as u64,
        Elem::U16 => v as u16 as u64,
        Elem::I32 => v as i32 as u64,
        Elem::U32 => v as u32 as u64,
        Elem::I64 => v as u64,
        _ => v as u64,
    }
}

fn render(e: Elem, b: &[u64]) -> String {
    let v: Vec<String> = b.iter().map(|x| scalar_val(e, *x).render()).collect();
    format!("[{}]", v.join(", "))
}

const NONE_MSG: &str = "checked operation returned None";

/// One case: operands `a` (N elements, or 1 if the left side is a scalar) and `b`.
pub fn judge(op: &IntOp, a: &[u64], b: &[u64]) -> (Option<(String, String)>, bool) {
    let n = op.ty.n();
    let e = op.ty.elem();
    // reference: the primitive, lane by lane (or the documented fold for reductions), in this build
    let mut want = Vec::with_capacity(n);
    let mut prim_panics = None;
    if let Some(fold) = op.fold {
        match util::catch(|| fold(a, b)) {
            Ok(r) => want = r,
            Err(p) => prim_panics = Some((0, p.msg)),
        }
    }
    for l in 0..if op.fold.is_some() { 0 } else { n } {
        let x = if op.lhs_scalar { a[0] } else { a[l] };
        let y = match op.rhs_n {
            0 => 0,
            1 => b[0],
            _ => b[l],
        };
        let f = op.prim;
        match util::catch(|| f(x, y)) {
            Ok(r) => want.push(r),
            Err(p) => {
                prim_panics = Some((l, p.msg));
                break;
            }
        }
    }
    let f = op.vec;
    let got = util::catch(|| f(a, b));
    let shown = format!("{}({}, {})", op.name, render(e, a), render(op.rhs_elem, b));
    match (prim_panics, got) {
        // a `checked_*` reference fails by *returning None* (our `expect`), which is not a panic of the primitive: the vector
        // operation has to return None as well, not panic (in any profile)
        (Some((_, pm)), Err(p)) if pm.contains(NONE_MSG) && !p.msg.contains(NONE_MSG) => (
            Some((format!("panic:{}", op.name), format!("{shown}: the checked primitive returns None without panicking, the vector operation panicked: {}", p.msg))),
            true,
        ),
        (Some((_, pm)), Err(p)) if !pm.contains(NONE_MSG) && p.msg.contains(NONE_MSG) => (
            Some((format!("missing-panic:{}", op.name), format!("{shown}: the primitive panics ({pm}) but the vector operation returned None"))),
            false,
        ),
        (Some(_), Err(_)) => (None, true),
        (Some((l, msg)), Ok(r)) => (
            Some((format!("missing-panic:{}", op.name), format!("{shown}: the primitive panics on lane {l} ({msg}) but the vector operation returned {}", render(e, &r)))),
            false,
        ),
        (None, Err(p)) => (Some((format!("panic:{}", op.name), format!("{shown}: no lane's primitive operation panics, the vector operation did: {}", p.msg))), true),
        (None, Ok(r)) => {
            if r != want {
                (Some((format!("wrong-lanes:{}", op.name), format!("{shown} = {} but lane-wise primitive gives {}", render(e, &r), render(e, &want)))), false)
            } else {
                (None, false)
            }
        }
    }
}

fn replay_json(op: &IntOp, a: &[u64], b: &[u64], seed: u64, class: &str, detail: &str) -> J {
    let hex = |v: &[u64]| v.iter().map(|x| format!("0x{x:x}")).collect::<Vec<_>>();
    json!({"property": "C18", "part": "I", "config": util::CONFIG_TAG, "profile": util::profile_tag(), "seed": seed,
           "op": op.name, "a": hex(a), "b": hex(b), "violation_class": class, "observed": detail})
}

pub fn run(seed: u64, samples: usize, workers: usize) -> Summary {
    let ops = int_ops();
    let mut sum = Summary::default();
    sum.faults_fired.insert("INT_EDGE_VALUE".into(), 0);
    sum.faults_effective.insert("INT_EDGE_VALUE".into(), 0);
    util::par_runs(
        ops.len(),
        workers,
        |oi| {
            let op = &ops[oi];
            let n = op.ty.n();
            let e = op.ty.elem();
            let be = op.rhs_elem;
            let an = if op.lhs_scalar { 1 } else { n };
            let bn = op.rhs_n;
            let mut rng = Rng::new(seed, "c18i", oi as u64);
            // around every lane width, and amounts that become small only after truncation to 8 / 16 / 32 bits
            const SHIFTS: [i64; 34] = [0, 1, 2, 7, 8, 9, 15, 16, 17, 31, 32, 33, 63, 64, 65, -1, 127, 255,
                256, 257, 259, 271, 65536, 65537, 65539, 65551, 1 << 17, 1 << 31, (1 << 32) + 1, (1 << 32) + 3, 0xABCD_0003, 0x7FFF_FF00, 1 << 40, (1 << 48) + 5];
            let gen_b = |rng: &mut Rng, cls: Cls| -> u64 {
                if op.is_shift && !matches!(cls, Cls::RandomBits) {
                    // shift amounts around every lane width, truncated to the right operand's type
                    scalar_bits_of(be, SHIFTS[rng.below(SHIFTS.len())])
                } else {
                    gen_scalar_bits(be, rng, cls)
                }
            };
            let mut evals = 0u64;
            let mut panics = 0u64;
            let mut viol = None;
            let mut run_case = |a: Vec<u64>, b: Vec<u64>| {
                evals += 1;
                let (v, panicked) = judge(op, &a, &b);
                if panicked {
                    panics += 1;
                }
                if let (Some((class, detail)), None) = (v, &viol) {
                    viol = Some(Violation { class: class.clone(), detail: detail.clone(), replay: replay_json(op, &a, &b, seed, &class, &detail) });
                }
            };
            // every (lane of a, lattice) x (lane of b, lattice), the other lanes ordinary
            for la in 0..an {
                for ia in 0..N_INT_LATTICE {
                    for lb in 0..bn.max(1) {
                        for ib in 0..N_INT_LATTICE {
                            let mut a: Vec<u64> = (0..an).map(|_| gen_scalar_bits(e, &mut rng, Cls::Ordinary)).collect();
                            let mut b: Vec<u64> = (0..bn).map(|_| gen_b(&mut rng, Cls::Ordinary)).collect();
                            a[la] = gen_scalar_bits(e, &mut rng, Cls::Lattice(ia));
                            if bn > 0 {
                                b[lb] = if op.is_shift { scalar_bits_of(be, SHIFTS[(ib * 3 + ia) % SHIFTS.len()]) } else { gen_scalar_bits(be, &mut rng, Cls::Lattice(ib)) };
                            }
                            run_case(a, b);
                        }
                    }
                }
            }
            for _ in 0..samples {
                let cls = if rng.chance(1, 2) { Cls::RandomBits } else { Cls::Mix };
                let a: Vec<u64> = (0..an).map(|_| gen_scalar_bits(e, &mut rng, cls)).collect();
                let b: Vec<u64> = (0..bn).map(|_| gen_b(&mut rng, cls)).collect();
                run_case(a, b);
            }
            (evals, panics, viol)
        },
        |oi, (evals, panics, viol)| {
            sum.evaluations += evals;
            *sum.faults_fired.get_mut("INT_EDGE_VALUE").unwrap() += evals;
            *sum.faults_effective.get_mut("INT_EDGE_VALUE").unwrap() += panics;
            sum.distinct.insert(ops[oi].name.clone());
            if sum.samples.len() < 2 && oi % 97 == 0 {
                sum.samples.push(json!({"op": ops[oi].name, "cases": evals, "documented_panics_observed": panics}));
            }
            if let Some(v) = viol {
                sum.violations.push(v);
            }
        },
    );
    sum.extra.insert("integer_ops".into(), json!(ops.len()));
    run_composites(seed, samples.max(200), &mut sum);
    sum
}

pub fn replay(j: &J) -> Option<(String, String)> {
    let hexv = |x: &J| -> Vec<u64> { x.as_array().unwrap().iter().map(|s| util::parse_hex(s.as_str().unwrap())).collect() };
    if j["composite"].as_bool() == Some(true) {
        let ops = comp_ops();
        let op = ops.iter().find(|o| o.name == j["op"].as_str().unwrap()).expect("replay: unknown composite integer op");
        return judge_comp(op, &hexv(&j["a"]), &hexv(&j["b"])).0;
    }
    let ops = int_ops();
    let name = j["op"].as_str().unwrap();
    let op = ops.iter().find(|o| o.name == name).expect("replay: unknown integer op");
    let hexv = |x: &J| -> Vec<u64> { x.as_array().unwrap().iter().map(|s| util::parse_hex(s.as_str().unwrap())).collect() };
    judge(op, &hexv(&j["a"]), &hexv(&j["b"])).0
}

// ---------------------------------------------------------------------------------------------
// composite integer functions (cross, perp_dot, rotate, perp): the result is a small expression of primitive `*`, `+`,
// `-`; which expression is not documented, so the primitive's panic points are bounded from both sides:
//   * the exact result of a lane does not fit the element type  =>  every expression overflows somewhere: in a build with
//     overflow checks the call MUST panic, without them it must return the wrapped result;
//   * no intermediate of the textbook expression leaves the range =>  the call MUST NOT panic and returns the exact result;
//   * in between either outcome is accepted (but a returned value must be the wrapped result).

pub struct CompOp {
    pub name: String,
    pub ty: TyId,
    pub binary: bool,
    /// scalar result (perp_dot) instead of a vector
    pub vec: VecOp,
    /// exact lanes and every intermediate of the textbook expression; `None` when 128 bits do not hold an intermediate
    pub model: fn(&[i128], &[i128]) -> Option<(Vec<i128>, Vec<i128>)>,
    /// the same expression in wrapping 64-bit arithmetic (exact modulo 2^64, hence modulo the element width)
    pub wrapped: fn(&[u64], &[u64]) -> Vec<u64>,
}

fn m(a: i128, b: i128) -> Option<i128> { a.checked_mul(b) }

fn cross_model(a: &[i128], b: &[i128]) -> Option<(Vec<i128>, Vec<i128>)> {
    let p = [m(a[1], b[2])?, m(b[1], a[2])?, m(a[2], b[0])?, m(b[2], a[0])?, m(a[0], b[1])?, m(b[0], a[1])?];
    let r = vec![p[0].checked_sub(p[1])?, p[2].checked_sub(p[3])?, p[4].checked_sub(p[5])?];
    Some((r.clone(), p.iter().copied().chain(r).collect()))
}
fn cross_wrapped(a: &[u64], b: &[u64]) -> Vec<u64> {
    let w = |x: u64, y: u64, z: u64, t: u64| x.wrapping_mul(y).wrapping_sub(z.wrapping_mul(t));
    vec![w(a[1], b[2], b[1], a[2]), w(a[2], b[0], b[2], a[0]), w(a[0], b[1], b[0], a[1])]
}
fn perp_dot_model(a: &[i128], b: &[i128]) -> Option<(Vec<i128>, Vec<i128>)> {
    let p = [m(a[0], b[1])?, m(a[1], b[0])?];
    let r = p[0].checked_sub(p[1])?;
    Some((vec![r], vec![p[0], p[1], r]))
}
fn perp_dot_wrapped(a: &[u64], b: &[u64]) -> Vec<u64> {
    vec![a[0].wrapping_mul(b[1]).wrapping_sub(a[1].wrapping_mul(b[0]))]
}
fn rotate_model(a: &[i128], b: &[i128]) -> Option<(Vec<i128>, Vec<i128>)> {
    let p = [m(a[0], b[0])?, m(a[1], b[1])?, m(a[1], b[0])?, m(a[0], b[1])?];
    let r = vec![p[0].checked_sub(p[1])?, p[2].checked_add(p[3])?];
    Some((r.clone(), p.iter().copied().chain(r).collect()))
}
fn rotate_wrapped(a: &[u64], b: &[u64]) -> Vec<u64> {
    vec![a[0].wrapping_mul(b[0]).wrapping_sub(a[1].wrapping_mul(b[1])), a[1].wrapping_mul(b[0]).wrapping_add(a[0].wrapping_mul(b[1]))]
}
fn perp_model(a: &[i128], _: &[i128]) -> Option<(Vec<i128>, Vec<i128>)> {
    let r = vec![-a[1], a[0]];
    Some((r.clone(), r))
}
fn perp_wrapped(a: &[u64], _: &[u64]) -> Vec<u64> {
    vec![a[1].wrapping_neg(), a[0]]
}

macro_rules! comp_cross {
    ($v:ident, $($T:ident),*) => {$(
        $v.push(CompOp { name: format!("{}::cross", stringify!($T)), ty: TyId::$T, binary: true,
            vec: |a, b| bits(&mk::<$T>(a).cross(mk::<$T>(b))), model: cross_model, wrapped: cross_wrapped });
    )*};
}
macro_rules! comp_vec2 {
    ($v:ident, $($T:ident),*) => {$(
        $v.push(CompOp { name: format!("{}::perp_dot", stringify!($T)), ty: TyId::$T, binary: true,
            vec: |a, b| vec![mk::<$T>(a).perp_dot(mk::<$T>(b)).to_bits64()], model: perp_dot_model, wrapped: perp_dot_wrapped });
        $v.push(CompOp { name: format!("{}::rotate", stringify!($T)), ty: TyId::$T, binary: true,
            vec: |a, b| bits(&mk::<$T>(a).rotate(mk::<$T>(b))), model: rotate_model, wrapped: rotate_wrapped });
        $v.push(CompOp { name: format!("{}::perp", stringify!($T)), ty: TyId::$T, binary: false,
            vec: |a, _| bits(&mk::<$T>(a).perp()), model: perp_model, wrapped: perp_wrapped });
    )*};
}

pub fn comp_ops() -> Vec<CompOp> {
    let mut v = Vec::new();
    comp_cross!(v, I8Vec3, U8Vec3, I16Vec3, U16Vec3, IVec3, UVec3, I64Vec3, U64Vec3, USizeVec3);
    comp_vec2!(v, I8Vec2, I16Vec2, IVec2, I64Vec2);
    v
}

fn elem_range(e: Elem) -> (i128, i128) {
    match e {
        Elem::I8 => (i8::MIN as i128, i8::MAX as i128),
        Elem::U8 => (0, u8::MAX as i128),
        Elem::I16 => (i16::MIN as i128, i16::MAX as i128),
        Elem::U16 => (0, u16::MAX as i128),
        Elem::I32 => (i32::MIN as i128, i32::MAX as i128),
        Elem::U32 => (0, u32::MAX as i128),
        Elem::I64 => (i64::MIN as i128, i64::MAX as i128),
        _ => (0, u64::MAX as i128),
    }
}

fn elem_signed(e: Elem) -> bool {
    matches!(e, Elem::I8 | Elem::I16 | Elem::I32 | Elem::I64)
}

/// does this build check integer overflow? (probed, because `cfg(overflow_checks)` is not stable)
fn overflow_checks() -> bool {
    use std::sync::OnceLock;
    static P: OnceLock<bool> = OnceLock::new();
    *P.get_or_init(|| util::catch(|| { let x: i8 = std::hint::black_box(127); std::hint::black_box(x + std::hint::black_box(1)) }).is_err())
}

pub fn judge_comp(op: &CompOp, a: &[u64], b: &[u64]) -> (Option<(String, String)>, bool) {
    let e = op.ty.elem();
    let wide = |x: &u64| if elem_signed(e) { *x as i64 as i128 } else { *x as i128 };
    let (aw, bw): (Vec<i128>, Vec<i128>) = (a.iter().map(wide).collect(), b.iter().map(wide).collect());
    let (lo, hi) = elem_range(e);
    let fits = |x: &i128| *x >= lo && *x <= hi;
    // wrapped result in the storage convention of the model (sign- or zero-extended element)
    let wrapped: Vec<u64> = (op.wrapped)(a, b).iter().map(|x| scalar_bits_trunc(e, *x)).collect();
    let f = op.vec;
    let got = util::catch(|| f(a, b));
    let shown = if op.binary { format!("{}({}, {})", op.name, render(e, a), render(e, b)) } else { format!("{}({})", op.name, render(e, a)) };
    let (must_panic, must_return) = match (op.model)(&aw, &bw) {
        Some((lanes, inter)) => {
            let out = !lanes.iter().all(fits);
            (out && overflow_checks(), !overflow_checks() || inter.iter().all(fits))
        }
        None => (false, !overflow_checks()),
    };
    match got {
        Err(p) => {
            if must_return {
                (Some((format!("panic:{}", op.name), format!("{shown}: no primitive operation of the expression overflows in this build, the vector operation panicked: {}", p.msg))), true)
            } else if !p.msg.starts_with("attempt to ") {
                (Some((format!("panic:{}", op.name), format!("{shown}: panicked with something other than the primitive's overflow: {}", p.msg))), true)
            } else {
                (None, true)
            }
        }
        Ok(r) => {
            if must_panic {
                (Some((format!("missing-panic:{}", op.name), format!("{shown}: the exact result does not fit the element type, so every expression of primitive operations overflows, but the call returned {}", render(e, &r)))), false)
            } else if r != wrapped {
                (Some((format!("wrong-lanes:{}", op.name), format!("{shown} = {} but the expression evaluates to {}", render(e, &r), render(e, &wrapped)))), false)
            } else {
                (None, false)
            }
        }
    }
}

/// low bits of `x` as an element of kind `e`, in the storage convention (sign- / zero-extended)
fn scalar_bits_trunc(e: Elem, x: u64) -> u64 {
    match e {
        Elem::I8 => x as i8 as u64,
        Elem::U8 => x as u8 as u64,
        Elem::I16 => x as i16 as u64,
        Elem::U16 => x as u16 as u64,
        Elem::I32 => x as i32 as u64,
        Elem::U32 => x as u32 as u64,
        _ => x,
    }
}

fn comp_replay_json(op: &CompOp, a: &[u64], b: &[u64], seed: u64, class: &str, detail: &str) -> J {
    let hex = |v: &[u64]| v.iter().map(|x| format!("0x{x:x}")).collect::<Vec<_>>();
    json!({"property": "C18", "part": "I", "config": util::CONFIG_TAG, "profile": util::profile_tag(), "seed": seed,
           "op": op.name, "composite": true, "a": hex(a), "b": hex(b), "violation_class": class, "observed": detail})
}

/// every (lane, edge value) pair of both operands, magnitudes around the square root of the type's range (where the
/// products start to overflow), and seeded samples
pub fn run_composites(seed: u64, samples: usize, sum: &mut Summary) {
    let ops = comp_ops();
    for (oi, op) in ops.iter().enumerate() {
        let n = op.ty.n();
        let e = op.ty.elem();
        let mut rng = Rng::new(seed, "c18i-comp", oi as u64);
        let (_, hi) = elem_range(e);
        let root = (hi as f64).sqrt() as i64;
        let around: Vec<i64> = vec![root - 1, root, root + 1, root + 2, -(root - 1), -root, -(root + 1), root / 2, root * 2, 3, -3];
        let mut cases: Vec<(Vec<u64>, Vec<u64>)> = Vec::new();
        for la in 0..n {
            for ia in 0..N_INT_LATTICE + around.len() {
                for lb in 0..n {
                    for ib in 0..N_INT_LATTICE + around.len() {
                        let pick = |rng: &mut Rng, i: usize| if i < N_INT_LATTICE { gen_scalar_bits(e, rng, Cls::Lattice(i)) } else { scalar_bits_of(e, around[i - N_INT_LATTICE]) };
                        let mut a: Vec<u64> = (0..n).map(|_| gen_scalar_bits(e, &mut rng, Cls::Ordinary)).collect();
                        let mut b: Vec<u64> = (0..n).map(|_| gen_scalar_bits(e, &mut rng, Cls::Ordinary)).collect();
                        a[la] = pick(&mut rng, ia);
                        b[lb] = pick(&mut rng, ib);
                        cases.push((a, b));
                    }
                }
            }
        }
        for k in 0..samples {
            let cls = match k % 3 { 0 => Cls::RandomBits, 1 => Cls::Mix, _ => Cls::Ordinary };
            let mut a: Vec<u64> = (0..n).map(|_| gen_scalar_bits(e, &mut rng, cls)).collect();
            let mut b: Vec<u64> = (0..n).map(|_| gen_scalar_bits(e, &mut rng, cls)).collect();
            if k % 3 == 2 {
                // every lane around the square root of the range: products at the edge of overflowing, differences inside
                for x in a.iter_mut().chain(b.iter_mut()) {
                    *x = scalar_bits_of(e, around[rng.below(around.len())] + rng.below(5) as i64 - 2);
                }
            }
            cases.push((a, b));
        }
        let mut panics = 0u64;
        let mut viol: Option<Violation> = None;
        for (a, b) in &cases {
            let (v, panicked) = judge_comp(op, a, b);
            if panicked {
                panics += 1;
            }
            if let (Some((class, detail)), None) = (v, &viol) {
                viol = Some(Violation { class: class.clone(), detail: detail.clone(), replay: comp_replay_json(op, a, b, seed, &class, &detail) });
            }
        }
        sum.evaluations += cases.len() as u64;
        *sum.faults_fired.get_mut("INT_EDGE_VALUE").unwrap() += cases.len() as u64;
        *sum.faults_effective.get_mut("INT_EDGE_VALUE").unwrap() += panics;
        sum.distinct.insert(op.name.clone());
        if let Some(v) = viol {
            sum.violations.push(v);
        }
    }
    sum.extra.insert("composite_integer_ops".into(), json!(ops.len()));
    sum.extra.insert("overflow_checks_in_this_build".into(), json!(overflow_checks()));
}
