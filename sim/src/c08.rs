//! C08 — the padding lane of Vec3A / Mat3A / Affine3A / BVec3A never influences a result.
//!
//! The padding lane is storage that is not part of the value: the simulator plays the
//! adversary that owns it. A seeded *program* (a chain of public operations over a register
//! file) is materialised together with a *fault plan* (POISON events at step boundaries, routed
//! through public API only). The same program runs under plan ∅, plan P and plan P̄ (every
//! poison complemented); the visible projection of every step result must be bit-identical in
//! all three. Non-interference between twin runs needs no tolerance, so a clean tree cannot
//! alarm. The first divergence names the op; the program is then minimised.

#![allow(dead_code)]

use crate::hidden::{self, Route, ROUTES};
use crate::ops::{OpDesc, OPS};
use crate::report::{Summary, Violation};
use crate::rng::Rng;
use crate::util;
use crate::val::*;
use glam::*;
use serde_json::{json, Value as J};
use std::collections::{BTreeMap, BTreeSet};

pub type RegId = u32;

#[derive(Clone, Debug)]
pub struct Step {
    pub op: usize,
    pub args: Vec<RegId>,
    pub outs: Vec<RegId>,
}

#[derive(Clone, Copy, Debug, PartialEq)]
pub enum PBits {
    Const(u32),
    /// bits of visible lane i of the same column
    CopyLane(usize),
    /// sign-flipped bits of visible lane i
    NegLane(usize),
}

#[derive(Clone, Debug)]
pub struct Fault {
    pub before_step: usize,
    pub reg: RegId,
    /// one spec per padded column (1 for Vec3A / BVec3A, 3 for Mat3A, 4 for Affine3A)
    pub bits: Vec<PBits>,
    pub route: Route,
}

#[derive(Clone, Debug)]
pub struct Program {
    pub init: Vec<(RegId, Val)>,
    pub steps: Vec<Step>,
    pub faults: Vec<Fault>,
}

#[derive(Clone, Copy, PartialEq, Eq, Debug)]
pub enum Variant {
    None,
    P,
    PBar,
}

pub const POISON_CLASSES: &[(&str, u32)] = &[
    ("qnan", 0x7FC0_0000),
    ("snan", 0x7FA0_0001),
    ("neg-nan", 0xFFC0_1234),
    ("inf", 0x7F80_0000),
    ("neg-inf", 0xFF80_0000),
    ("zero", 0x0000_0000),
    ("neg-zero", 0x8000_0000),
    ("max", 0x7F7F_FFFF),
    ("neg-max", 0xFF7F_FFFF),
    ("min-positive", 0x0080_0000),
    ("subnormal", 0x0000_0417),
    ("one", 0x3F80_0000),
    ("neg-one", 0xBF80_0000),
    ("all-ones", 0xFFFF_FFFF),
    ("huge", 0x7149_F2CA),
    ("tiny", 0x0DA2_4260),
];

fn is_padded_ty(t: &Ty) -> bool {
    matches!(t, Ty::G(TyId::Vec3A) | Ty::G(TyId::Mat3A) | Ty::G(TyId::Affine3A) | Ty::G(TyId::BVec3A))
}

fn mentions_padded(t: &Ty) -> bool {
    match t {
        Ty::Arr(x, _) | Ty::Opt(x) => mentions_padded(x),
        Ty::Tup(xs) => xs.iter().any(mentions_padded),
        t => is_padded_ty(t),
    }
}

/// ops that take a padded value somewhere (the ones under test) and ops that only produce one
pub fn op_sets() -> (Vec<usize>, Vec<usize>) {
    let mut takers = Vec::new();
    let mut makers = Vec::new();
    for (i, o) in OPS.iter().enumerate() {
        // the documented-panic family is driven in range here; fmt_sink needs a sink position
        if o.args.iter().any(mentions_padded) {
            takers.push(i);
        } else if o.outs.iter().any(mentions_padded) {
            makers.push(i);
        }
    }
    (takers, makers)
}

fn resolve_bits(spec: PBits, lanes: [f32; 3], variant: Variant) -> u32 {
    let b = match spec {
        PBits::Const(b) => b,
        PBits::CopyLane(i) => lanes[i % 3].to_bits(),
        PBits::NegLane(i) => lanes[i % 3].to_bits() ^ 0x8000_0000,
    };
    if variant == Variant::PBar {
        !b
    } else {
        b
    }
}

/// Apply a POISON event to a value (recursively into containers).
fn poison(v: &Val, f: &Fault, variant: Variant) -> Val {
    match v {
        Val::Vec3A(x) => Val::Vec3A(hidden::poison_vec3a(*x, resolve_bits(f.bits[0], x.to_array(), variant), f.route)),
        Val::Mat3A(m) => {
            let cols = [m.x_axis, m.y_axis, m.z_axis];
            let b: Vec<u32> = (0..3).map(|c| resolve_bits(f.bits[c % f.bits.len()], cols[c].to_array(), variant)).collect();
            Val::Mat3A(hidden::poison_mat3a(*m, [b[0], b[1], b[2]], f.route))
        }
        Val::Affine3A(a) => {
            let cols = [a.matrix3.x_axis, a.matrix3.y_axis, a.matrix3.z_axis, a.translation];
            let b: Vec<u32> = (0..4).map(|c| resolve_bits(f.bits[c % f.bits.len()], cols[c].to_array(), variant)).collect();
            Val::Affine3A(hidden::poison_affine3a(*a, [b[0], b[1], b[2], b[3]], f.route))
        }
        Val::BVec3A(m) => {
            // a mask lane is all-ones or all-zeros: the poison's low bit decides, P̄ flips it
            let on = resolve_bits(f.bits[0], [0.0; 3], variant) & 1 == 1;
            Val::BVec3A(hidden::poison_bvec3a(*m, on))
        }
        Val::Arr(xs) => Val::Arr(xs.iter().map(|x| poison(x, f, variant)).collect()),
        Val::Tup(xs) => Val::Tup(xs.iter().map(|x| poison(x, f, variant)).collect()),
        Val::Opt(Some(x)) => Val::Opt(Some(Box::new(poison(x, f, variant)))),
        o => o.clone(),
    }
}

static CANON_NAN: std::sync::atomic::AtomicBool = std::sync::atomic::AtomicBool::new(false);

/// Under Miri every NaN an arithmetic op produces gets a random payload/sign (the interpreter
/// models LLVM's latitude), so NaN results are compared as a class there. Natively: bit-exact.
pub fn set_canon_nan(on: bool) {
    CANON_NAN.store(on, std::sync::atomic::Ordering::Relaxed);
}

fn canon32(b: u32) -> u64 {
    if CANON_NAN.load(std::sync::atomic::Ordering::Relaxed) && f32::from_bits(b).is_nan() {
        0x7FC0_0000
    } else {
        b as u64
    }
}

/// Visible projection of a step result. Padded types go through three independent read paths.
pub fn obs_c08(v: &Val, out: &mut Vec<u64>) {
    match v {
        Val::Vec3A(x) => {
            let a = x.to_array();
            let b = [x.x, x.y, x.z];
            let c: [f32; 3] = (*x).into();
            let d: Vec3 = (*x).into();
            for arr in [a, b, c, d.to_array()] {
                for e in arr {
                    out.push(canon32(e.to_bits()));
                }
            }
        }
        Val::BVec3A(m) => {
            out.push(m.bitmask() as u64);
            let a: [bool; 3] = (*m).into();
            for (i, e) in a.iter().enumerate() {
                out.push(*e as u64);
                out.push(m.test(i) as u64);
            }
            let u: [u32; 3] = (*m).into();
            for e in u {
                out.push(e as u64);
            }
        }
        Val::Mat3A(m) => {
            for e in m.to_cols_array() {
                out.push(canon32(e.to_bits()));
            }
            for col in m.to_cols_array_2d() {
                for e in col {
                    out.push(canon32(e.to_bits()));
                }
            }
            for c in [m.x_axis, m.y_axis, m.z_axis] {
                for e in [c.x, c.y, c.z] {
                    out.push(canon32(e.to_bits()));
                }
            }
        }
        Val::Affine3A(a) => {
            for e in a.to_cols_array() {
                out.push(canon32(e.to_bits()));
            }
            for c in [a.matrix3.x_axis, a.matrix3.y_axis, a.matrix3.z_axis, a.translation] {
                for e in [c.x, c.y, c.z] {
                    out.push(canon32(e.to_bits()));
                }
            }
        }
        Val::Arr(xs) | Val::Tup(xs) | Val::Slice(xs) => {
            out.push(xs.len() as u64);
            for x in xs {
                obs_c08(x, out);
            }
        }
        Val::Opt(Some(x)) => {
            out.push(1);
            obs_c08(x, out);
        }
        Val::F32(x) => out.push(canon32(x.to_bits())),
        other => {
            if CANON_NAN.load(std::sync::atomic::Ordering::Relaxed) {
                // canonicalise float NaNs inside other glam values too
                if let Some((t, bits)) = other.glam_bits() {
                    for b in bits {
                        out.push(match t.elem() {
                            Elem::F32 => canon32(b as u32),
                            Elem::F64 if f64::from_bits(b).is_nan() => 0x7FF8_0000_0000_0000,
                            _ => b,
                        });
                    }
                    return;
                }
                if let Val::F64(x) = other {
                    out.push(if x.is_nan() { 0x7FF8_0000_0000_0000 } else { x.to_bits() });
                    return;
                }
            }
            other.obs(out)
        }
    }
}

#[derive(Clone, Debug, PartialEq)]
pub enum StepLog {
    Ok(Vec<Vec<u64>>),
    Panic(String),
}

pub struct Trace {
    pub steps: Vec<StepLog>,
    /// rendered outputs, for the report
    pub rendered: Vec<String>,
    pub regs: BTreeMap<RegId, Val>,
}

fn zero_of(t: &Ty) -> Val {
    let mut r = Rng::new(0, "zero", 0);
    gen_val(t, &mut r, Cls::Lattice(0), 0)
}

pub fn execute(p: &Program, variant: Variant, render: bool) -> Trace {
    let mut regs: BTreeMap<RegId, Val> = p.init.iter().cloned().collect();
    let mut steps = Vec::with_capacity(p.steps.len());
    let mut rendered = Vec::new();
    for (k, st) in p.steps.iter().enumerate() {
        if variant != Variant::None {
            for f in p.faults.iter().filter(|f| f.before_step == k) {
                if let Some(v) = regs.get(&f.reg) {
                    let nv = poison(v, f, variant);
                    regs.insert(f.reg, nv);
                }
            }
        }
        let op = &OPS[st.op];
        let args: Vec<Val> = st.args.iter().map(|r| regs.get(r).cloned().unwrap_or(Val::Unit)).collect();
        match util::catch(|| (op.f)(&args)) {
            Ok(outs) => {
                let mut log = Vec::with_capacity(outs.len());
                for (i, o) in outs.iter().enumerate() {
                    let mut w = Vec::new();
                    obs_c08(o, &mut w);
                    log.push(w);
                    if let Some(id) = st.outs.get(i) {
                        regs.insert(*id, o.clone());
                    }
                }
                if render {
                    rendered.push(outs.iter().map(|o| o.render()).collect::<Vec<_>>().join(" ; "));
                }
                steps.push(StepLog::Ok(log));
            }
            Err(pn) => {
                for (i, id) in st.outs.iter().enumerate() {
                    regs.insert(*id, zero_of(&op.outs[i]));
                }
                if render {
                    rendered.push(format!("PANIC {}", pn.msg));
                }
                steps.push(StepLog::Panic(pn.msg));
            }
        }
    }
    Trace { steps, rendered, regs }
}

/// First step at which the three variants disagree.
pub fn first_divergence(p: &Program) -> Option<(usize, String)> {
    let a = execute(p, Variant::None, false);
    let b = execute(p, Variant::P, false);
    let c = execute(p, Variant::PBar, false);
    for k in 0..p.steps.len() {
        if a.steps[k] != b.steps[k] || a.steps[k] != c.steps[k] {
            return Some((k, format!("lane3-dependence:{}", OPS[p.steps[k].op].name)));
        }
    }
    None
}

fn describe(p: &Program, k: usize) -> String {
    let a = execute(p, Variant::None, true);
    let b = execute(p, Variant::P, true);
    let c = execute(p, Variant::PBar, true);
    let op = &OPS[p.steps[k].op];
    let args: Vec<String> = p.steps[k].args.iter().map(|r| a.regs.get(r).map(|v| v.render()).unwrap_or_default()).collect();
    format!(
        "{}({}) -> no-poison: {} | poison P: {} | poison !P: {}",
        op.name,
        args.join(", "),
        a.rendered[k],
        b.rendered[k],
        c.rendered[k]
    )
}

// ---------------------------------------------------------------------------------------------
// generation

struct Gen<'a> {
    rng: &'a mut Rng,
    next_id: RegId,
    reg_ty: Vec<(RegId, Ty)>,
    init: Vec<(RegId, Val)>,
    fresh_vals: Vec<(Ty, Val)>,
    cls: Cls,
}

impl<'a> Gen<'a> {
    fn fresh(&mut self, ty: &Ty, op: &OpDesc) -> RegId {
        let id = self.next_id;
        self.next_id += 1;
        let (n, idx_limit) = c18_limits(op);
        let v = match ty {
            Ty::S(Elem::Usize) => {
                if op.fname == "fmt_sink" {
                    Val::Usize(if self.rng.chance(1, 2) { usize::MAX } else { self.rng.below(12) })
                } else if op.fname == "fmt_spec" {
                    Val::Usize(self.rng.below(crate::ops::N_FMT_SPECS))
                } else if op.fname.ends_with("_n") {
                    // the iterator length (index into ITER_LENS): mostly short, one in four from the whole list
                    // (under the interpreter only the short ones: 100 003 items cost it minutes)
                    Val::Usize(if !cfg!(miri) && self.rng.chance(1, 4) { self.rng.below(crate::ops::ITER_LENS.len()) } else { self.rng.below(crate::c18p::ITER_LENS_SMALL) })
                } else {
                    Val::Usize(self.rng.below(idx_limit.max(1)))
                }
            }
            t @ Ty::Slice(_) => {
                // valid lengths only (short slices are C18's business), but well beyond N: a fast path that
                // kicks in for roomy destinations must not leak the padding lane either
                let len = n + *self.rng.pick(&[0, 0, 1, 2, 3, 4, 7, 8, 16]);
                gen_val(t, self.rng, self.cls, len)
            }
            t => {
                // now and then a value related to the previous fresh value of the same type (equal, opposite, parallel,
                // anti-parallel): wiring alone almost never produces such operand pairs
                let prev = self.fresh_vals.iter().rev().find(|(pt, _)| pt == t && is_float_glam(t)).map(|(_, pv)| pv.clone());
                match prev {
                    Some(pv) if self.rng.chance(1, 6) => related(&pv, self.rng.below(N_RELATIONS)),
                    _ => gen_val(t, self.rng, self.cls, 4),
                }
            }
        };
        self.fresh_vals.push((*ty, v.clone()));
        self.init.push((id, v));
        self.reg_ty.push((id, *ty));
        id
    }
    fn pick_arg(&mut self, ty: &Ty, op: &OpDesc) -> RegId {
        // usize / slice arguments have per-op validity ranges: always fresh
        let reusable = !matches!(ty, Ty::S(Elem::Usize) | Ty::Slice(_));
        let cands: Vec<RegId> = self.reg_ty.iter().filter(|(_, t)| t == ty).map(|(id, _)| *id).collect();
        if reusable && !cands.is_empty() && self.rng.chance(3, 4) {
            // bias towards recent registers so chains form
            let k = cands.len();
            let i = if self.rng.chance(1, 2) { k - 1 - self.rng.below(k.min(3)) } else { self.rng.below(k) };
            cands[i]
        } else {
            self.fresh(ty, op)
        }
    }
}

fn c18_limits(op: &OpDesc) -> (usize, usize) {
    let owner_n = TyId::from_name(op.owner).map(|t| t.n()).unwrap_or(4);
    let isqrt = |n: usize| (1..=n).take_while(|k| k * k <= n).last().unwrap_or(1);
    let idx_limit = match op.fname {
        "col" | "col_mut" | "row" => isqrt(owner_n),
        "from_mat3_minor" | "from_mat3a_minor" | "from_mat4_minor" => match op.args.first() {
            Some(Ty::G(t)) => isqrt(t.n()),
            _ => 3,
        },
        _ => owner_n,
    };
    (owner_n, idx_limit)
}

fn padded_cols(t: &Ty) -> usize {
    match t {
        Ty::G(TyId::Mat3A) => 3,
        Ty::G(TyId::Affine3A) => 4,
        _ => 1,
    }
}

pub fn gen_program(seed: u64, run: u64, takers: &[usize], makers: &[usize]) -> Program {
    let mut rng = Rng::new(seed, "c08-program", run);
    // swarm: per-run knobs
    let n_steps = rng.range(1, 12);
    let cls = match rng.below(4) {
        0 => Cls::Ordinary,
        1 => Cls::RandomBits,
        _ => Cls::Mix,
    };
    let maker_rate = rng.below(4); // 0..3 in 10
    let fault_rate = rng.range(1, 3); // expected faults per 3 steps
    let focus: Option<&str> = match rng.below(5) {
        0 => Some("Vec3A"),
        1 => Some("Mat3A"),
        2 => Some("Affine3A"),
        3 => Some("BVec3A"),
        _ => None,
    };
    let focused: Vec<usize> = match focus {
        Some(f) => takers.iter().copied().filter(|i| OPS[*i].owner == f).collect(),
        None => Vec::new(),
    };
    let mut g = Gen { rng: &mut rng, next_id: 0, reg_ty: Vec::new(), init: Vec::new(), fresh_vals: Vec::new(), cls };
    let mut steps = Vec::new();
    // (step index at which the register exists from, id, type) for fault placement
    let mut avail: Vec<(usize, RegId, Ty)> = Vec::new();
    for k in 0..n_steps {
        let oi = if !makers.is_empty() && g.rng.below(10) < maker_rate {
            *g.rng.pick(makers)
        } else if !focused.is_empty() && g.rng.chance(2, 3) {
            *g.rng.pick(&focused)
        } else {
            *g.rng.pick(takers)
        };
        let op = &OPS[oi];
        let before = g.reg_ty.len();
        let args: Vec<RegId> = op.args.iter().map(|t| g.pick_arg(t, op)).collect();
        for (id, t) in g.reg_ty[before..].to_vec() {
            avail.push((k, id, t));
        }
        let outs: Vec<RegId> = op
            .outs
            .iter()
            .map(|t| {
                let id = g.next_id;
                g.next_id += 1;
                g.reg_ty.push((id, *t));
                avail.push((k + 1, id, *t));
                id
            })
            .collect();
        steps.push(Step { op: oi, args, outs });
    }
    // fault plan: POISON events at step boundaries, on registers that exist by then
    let mut faults = Vec::new();
    let n_faults = ((n_steps * fault_rate) as f64 / 3.0).ceil() as usize;
    for _ in 0..n_faults.max(1) {
        let k = g.rng.below(n_steps);
        let cands: Vec<&(usize, RegId, Ty)> = avail.iter().filter(|(from, _, t)| *from <= k && mentions_padded(t)).collect();
        if cands.is_empty() {
            continue;
        }
        // prefer a register the step at k actually reads: "place faults inside operations"
        let used: Vec<&&(usize, RegId, Ty)> = cands.iter().filter(|(_, id, _)| steps[k].args.contains(id)).collect();
        let pick: &(usize, RegId, Ty) = if !used.is_empty() && g.rng.chance(3, 4) { **g.rng.pick(&used) } else { *g.rng.pick(&cands) };
        let (_, reg, ty) = pick;
        let bits: Vec<PBits> = (0..padded_cols(ty))
            .map(|_| match g.rng.below(10) {
                0 => PBits::CopyLane(g.rng.below(3)),
                1 => PBits::NegLane(g.rng.below(3)),
                2 => PBits::Const(g.rng.next_u32()),
                _ => PBits::Const(POISON_CLASSES[g.rng.below(POISON_CLASSES.len())].1),
            })
            .collect();
        faults.push(Fault { before_step: k, reg: *reg, bits, route: ROUTES[g.rng.below(ROUTES.len())] });
    }
    Program { init: g.init, steps, faults }
}

/// The systematic part: one single-op program per (op, padded argument position, poison class,
/// route, operand class). Guarantees the (op, position, class) grid is covered instead of
/// leaving it to sampling; the seeded chains then add compositions and natural garbage.
pub fn grid_cases(takers: &[usize]) -> Vec<(usize, usize, usize, usize, usize)> {
    let mut v = Vec::new();
    const ALL: usize = usize::MAX;
    for &oi in takers {
        let npad = OPS[oi].args.iter().filter(|t| mentions_padded(t)).count();
        let mut positions: Vec<usize> = (0..OPS[oi].args.len()).filter(|p| mentions_padded(&OPS[oi].args[*p])).collect();
        if npad >= 2 {
            // every padded argument poisoned with the same class at once (dependences that need
            // a particular combination of two operands' hidden lanes)
            positions.push(ALL);
        }
        for pos in positions {
            for pc in 0..POISON_CLASSES.len() + 3 {
                for route in 0..ROUTES.len() {
                    for oc in 0..3 {
                        v.push((oi, pos, pc, route, oc));
                    }
                }
                // every operand uniformly one special value (all-zero vectors, all-NaN, all-huge ...): the
                // degenerate branches (fallbacks of normalize_or_*, any_orthogonal_vector, slerp ...) that
                // independent per-lane sampling almost never enters
                for li in 0..NUM_F_LATTICE {
                    v.push((oi, pos, pc, (pc + li) % ROUTES.len(), 3 + li));
                }
                // related operands: every other argument of the poisoned argument's type is equal / opposite / parallel /
                // anti-parallel to it (non-splat lanes), in both |x| > |y| and |x| < |y| shapes
                if same_type_args(&OPS[oi]) {
                    for rel in 0..N_RELATIONS {
                        v.push((oi, pos, pc, (pc + rel) % ROUTES.len(), 3 + NUM_F_LATTICE + rel));
                    }
                }
            }
            // structured operands (identity / singular / rotation / permutation matrices, identity and half-turn
            // quaternions, axis-aligned and unit vectors, plain scalars: the product over the arguments, the same lists
            // the C18 sweep uses): the branches taken only for exactly such values, under four hidden-lane classes each
            let total = crate::c18p::structured_total(&OPS[oi]);
            for combo in 0..total.min(MAX_STRUCTURED) {
                for j in 0..4 {
                    let pc = [0, 13, 11, (combo * 7 + 3) % (POISON_CLASSES.len() + 3)][j];
                    v.push((oi, pos, pc, (combo + j) % ROUTES.len(), OC_STRUCTURED + combo));
                }
            }
        }
    }
    v
}

/// 8 (factor, shape) relations x 4 lane rotations of the shape (which lane is the smallest / largest selects sub-branches)
const N_RELATIONS: usize = 32;
const MAX_STRUCTURED: usize = 160;
const OC_STRUCTURED: usize = 3 + NUM_F_LATTICE + N_RELATIONS;

fn same_type_args(op: &OpDesc) -> bool {
    op.args.iter().enumerate().any(|(i, t)| is_float_glam(t) && op.args.iter().skip(i + 1).any(|u| u == t))
}

fn is_float_glam(t: &Ty) -> bool {
    matches!(t, Ty::G(id) if id.elem() == Elem::F32 || id.elem() == Elem::F64)
}

/// `rel` applied to the visible elements of `v` (hidden lanes are left to the constructor / the fault plan)
fn related(v: &Val, rel: usize) -> Val {
    let Some((t, bits)) = v.glam_bits() else { return v.clone() };
    let k = [1.0, -1.0, 2.0, -0.5, -3.0, 1.0, -1.0, -2.0][rel % 8];
    let nb: Vec<u64> = bits
        .iter()
        .map(|b| if t.elem() == Elem::F32 { ((f32::from_bits(*b as u32) as f64 * k) as f32).to_bits() as u64 } else { (f64::from_bits(*b) * k).to_bits() })
        .collect();
    t.from_bits(&nb)
}

/// non-splat base shapes: rel < 5 uses |x| > |y|, rel >= 5 the other way round
fn base_shape(t: TyId, rel: usize) -> Val {
    let n = t.n();
    let rot = (rel / 8) % n.max(1);
    let rel = rel % 8;
    let lanes: Vec<f64> = (0..n).map(|i| { let i = (i + n - rot) % n; (if rel < 5 { [3.0, 1.0, -2.0, 0.5][i % 4] } else { [0.75, -4.0, 1.5, 2.0][i % 4] }) + (i / 4) as f64 }).collect();
    let bits: Vec<u64> = lanes.iter().map(|x| if t.elem() == Elem::F32 { (*x as f32).to_bits() as u64 } else { x.to_bits() }).collect();
    t.from_bits(&bits)
}

pub fn gen_grid_program(seed: u64, case: (usize, usize, usize, usize, usize), idx: u64) -> Program {
    let (oi, pos, pc, route, oc) = case;
    let mut rng = Rng::new(seed, "c08-grid", idx);
    let rel = if oc >= 3 + NUM_F_LATTICE && oc < OC_STRUCTURED { Some(oc - 3 - NUM_F_LATTICE) } else { None };
    let cls = match oc {
        0 => Cls::Ordinary,
        1 => Cls::Mix,
        2 => Cls::RandomBits,
        k if k < 3 + NUM_F_LATTICE => Cls::Lattice(k - 3),
        _ => Cls::Ordinary,
    };
    let op = &OPS[oi];
    let mut g = Gen { rng: &mut rng, next_id: 0, reg_ty: Vec::new(), init: Vec::new(), fresh_vals: Vec::new(), cls };
    let args: Vec<RegId> = op.args.iter().map(|t| g.fresh(t, op)).collect();
    if let Some(rel) = rel {
        // the first float glam argument that has a same-typed sibling gets a fixed non-splat shape, the siblings are related to it
        if let Some(bi) = (0..op.args.len()).find(|i| is_float_glam(&op.args[*i]) && op.args.iter().skip(i + 1).any(|u| *u == op.args[*i])) {
            if let Ty::G(t) = op.args[bi] {
                let base = base_shape(t, rel);
                for (i, ty) in op.args.iter().enumerate() {
                    if *ty == op.args[bi] {
                        g.init[i].1 = if i == bi { base.clone() } else { related(&base, rel) };
                    }
                }
            }
        }
    }
    if oc >= OC_STRUCTURED {
        let total = crate::c18p::structured_total(op);
        // a stride walk through the product when it is larger than the budget, so that late arguments vary too
        let combo = if total <= MAX_STRUCTURED { oc - OC_STRUCTURED } else { ((oc - OC_STRUCTURED) as u64 * 0x9E37_79B1 % total as u64) as usize };
        let vals = crate::c18p::structured_args_enum(op, combo, g.rng);
        for (i, v) in vals.into_iter().enumerate() {
            if matches!(&op.args[i], Ty::G(_) | Ty::S(Elem::F32) | Ty::S(Elem::F64)) && crate::c18p::structured_count(&op.args[i]) > 0 {
                g.init[i].1 = v;
            }
        }
    }
    let outs: Vec<RegId> = (0..op.outs.len()).map(|i| 1000 + i as RegId).collect();
    let spec = |r: &mut Rng| match pc {
        k if k < POISON_CLASSES.len() => PBits::Const(POISON_CLASSES[k].1),
        k if k == POISON_CLASSES.len() => PBits::CopyLane(r.below(3)),
        k if k == POISON_CLASSES.len() + 1 => PBits::NegLane(r.below(3)),
        _ => PBits::Const(r.next_u32()),
    };
    let targets: Vec<usize> = if pos == usize::MAX { (0..op.args.len()).filter(|p| mentions_padded(&op.args[*p])).collect() } else { vec![pos] };
    let mut faults = Vec::new();
    for tp in targets {
        let ncols = match &op.args[tp] {
            t if is_padded_ty(t) => padded_cols(t),
            _ => 4,
        };
        let bits: Vec<PBits> = (0..ncols).map(|_| spec(g.rng)).collect();
        faults.push(Fault { before_step: 0, reg: args[tp], bits, route: ROUTES[route] });
    }
    Program { init: g.init, steps: vec![Step { op: oi, args, outs }], faults }
}

// ---------------------------------------------------------------------------------------------
// minimisation

fn still_fails(p: &Program, class: &str) -> Option<usize> {
    match first_divergence(p) {
        Some((k, c)) if c == class => Some(k),
        _ => None,
    }
}

pub fn shrink(p: &Program, class: &str) -> Program {
    let mut cur = p.clone();
    let Some(mut d) = still_fails(&cur, class) else { return cur };
    // 1. nothing after the diverging step matters
    cur.steps.truncate(d + 1);
    cur.faults.retain(|f| f.before_step <= d);
    // 2. constify: replace a producing step by its fault-free outputs (incl. natural hidden lanes)
    let mut progress = true;
    while progress {
        progress = false;
        for k in (0..cur.steps.len().saturating_sub(1)).rev() {
            let tr = execute(&cur, Variant::None, false);
            let mut cand = cur.clone();
            let st = cand.steps.remove(k);
            for id in &st.outs {
                if let Some(v) = tr.regs.get(id) {
                    cand.init.push((*id, v.clone()));
                }
            }
            for f in cand.faults.iter_mut() {
                if f.before_step > k {
                    f.before_step -= 1;
                }
            }
            if let Some(nd) = still_fails(&cand, class) {
                cur = cand;
                d = nd;
                cur.steps.truncate(d + 1);
                cur.faults.retain(|f| f.before_step <= d);
                progress = true;
                break;
            }
        }
    }
    // 3. drop faults one at a time
    let mut i = 0;
    while i < cur.faults.len() {
        let mut cand = cur.clone();
        cand.faults.remove(i);
        if still_fails(&cand, class).is_some() {
            cur = cand;
        } else {
            i += 1;
        }
    }
    // 4. drop init registers nobody reads
    let used: BTreeSet<RegId> = cur.steps.iter().flat_map(|s| s.args.iter().copied()).collect();
    cur.init.retain(|(id, _)| used.contains(id));
    cur.faults.retain(|f| used.contains(&f.reg));
    // 5. simpler operand values: ordinary 1,2,3.. instead of whatever was drawn
    for i in 0..cur.init.len() {
        if let Some((t, bits)) = cur.init[i].1.glam_bits() {
            if !matches!(t.elem(), Elem::F32 | Elem::F64) {
                continue;
            }
            let nb: Vec<u64> = (0..bits.len())
                .map(|j| if t.elem() == Elem::F32 { ((j + 1) as f32).to_bits() as u64 } else { ((j + 1) as f64).to_bits() })
                .collect();
            let mut cand = cur.clone();
            cand.init[i].1 = t.from_bits(&nb);
            if still_fails(&cand, class).is_some() {
                cur = cand;
            }
        }
    }
    // 6. simpler poison: a plain quiet NaN / one
    for i in 0..cur.faults.len() {
        for simple in [0x7FC0_0000u32, 0x3F80_0000] {
            let mut cand = cur.clone();
            let n = cand.faults[i].bits.len();
            cand.faults[i].bits = vec![PBits::Const(simple); n];
            cand.faults[i].route = Route::FromVec4;
            if still_fails(&cand, class).is_some() {
                cur = cand;
                break;
            }
        }
    }
    cur
}

// ---------------------------------------------------------------------------------------------
// JSON

fn pbits_json(b: &PBits) -> J {
    match b {
        PBits::Const(x) => json!({"const": format!("0x{x:08x}")}),
        PBits::CopyLane(i) => json!({"copy_lane": i}),
        PBits::NegLane(i) => json!({"neg_lane": i}),
    }
}
fn pbits_from(j: &J) -> PBits {
    if let Some(s) = j.get("const") {
        PBits::Const(util::parse_hex(s.as_str().unwrap()) as u32)
    } else if let Some(i) = j.get("copy_lane") {
        PBits::CopyLane(i.as_u64().unwrap() as usize)
    } else {
        PBits::NegLane(j["neg_lane"].as_u64().unwrap() as usize)
    }
}

pub fn program_json(p: &Program) -> J {
    json!({
        "registers": p.init.iter().map(|(id, v)| json!({"id": id, "value": v.to_json(), "shows": v.render()})).collect::<Vec<_>>(),
        "program": p.steps.iter().map(|s| json!({"op": OPS[s.op].name, "args": s.args, "outs": s.outs})).collect::<Vec<_>>(),
        "faults": p.faults.iter().map(|f| json!({
            "kind": "POISON_LANE3", "before_step": f.before_step, "reg": f.reg,
            "bits": f.bits.iter().map(pbits_json).collect::<Vec<_>>(), "route": f.route.name()})).collect::<Vec<_>>(),
    })
}

pub fn program_from_json(j: &J) -> Program {
    let init = j["registers"].as_array().unwrap().iter().map(|r| (r["id"].as_u64().unwrap() as RegId, Val::from_json(&r["value"]))).collect();
    let steps = j["program"]
        .as_array()
        .unwrap()
        .iter()
        .map(|s| {
            let name = s["op"].as_str().unwrap();
            let op = crate::ops::find(name).unwrap_or_else(|| {
                eprintln!("glamsim: replay names op {name:?} which the current tree does not have");
                std::process::exit(2)
            });
            Step {
                op,
                args: s["args"].as_array().unwrap().iter().map(|x| x.as_u64().unwrap() as RegId).collect(),
                outs: s["outs"].as_array().unwrap().iter().map(|x| x.as_u64().unwrap() as RegId).collect(),
            }
        })
        .collect();
    let faults = j["faults"]
        .as_array()
        .unwrap()
        .iter()
        .map(|f| Fault {
            before_step: f["before_step"].as_u64().unwrap() as usize,
            reg: f["reg"].as_u64().unwrap() as RegId,
            bits: f["bits"].as_array().unwrap().iter().map(pbits_from).collect(),
            route: Route::from_name(f["route"].as_str().unwrap()),
        })
        .collect();
    Program { init, steps, faults }
}

fn poison_class(b: &PBits) -> String {
    match b {
        PBits::Const(x) => POISON_CLASSES.iter().find(|(_, v)| v == x).map(|(n, _)| n.to_string()).unwrap_or_else(|| "random-bits".into()),
        PBits::CopyLane(_) => "copy-of-visible-lane".into(),
        PBits::NegLane(_) => "negated-visible-lane".into(),
    }
}

pub struct RunOut {
    pub steps: u64,
    pub digest: u64,
    /// (op name, arg position, poison class) for poisons that reached an operand
    pub effective: Vec<(usize, usize, String)>,
    pub fired: u64,
    pub ineffective: u64,
    pub viol: Option<Violation>,
    pub sample: Option<J>,
}

pub fn run_one(seed: u64, run: u64, takers: &[usize], makers: &[usize], want_sample: bool) -> RunOut {
    let p = gen_program(seed, run, takers, makers);
    run_program(p, seed, run, want_sample)
}

pub fn run_program(p: Program, seed: u64, run: u64, want_sample: bool) -> RunOut {
    let a = execute(&p, Variant::None, false);
    let b = execute(&p, Variant::P, false);
    let c = execute(&p, Variant::PBar, false);
    let mut d = util::Digest::default();
    for s in &a.steps {
        match s {
            StepLog::Ok(v) => {
                for w in v.iter().flatten() {
                    d.push(*w);
                }
            }
            StepLog::Panic(m) => d.push_str(m),
        }
    }
    // reach: a poison is effective if a later step (>= its boundary) reads the register
    let mut effective = Vec::new();
    let mut ineffective = 0;
    for f in &p.faults {
        let mut hit = false;
        for st in p.steps.iter().skip(f.before_step) {
            for (pos, r) in st.args.iter().enumerate() {
                if *r == f.reg {
                    hit = true;
                    effective.push((st.op, pos, poison_class(&f.bits[0])));
                }
            }
        }
        if !hit {
            ineffective += 1;
        }
    }
    let mut viol = None;
    for k in 0..p.steps.len() {
        if a.steps[k] != b.steps[k] || a.steps[k] != c.steps[k] {
            let class = format!("lane3-dependence:{}", OPS[p.steps[k].op].name);
            let small = shrink(&p, &class);
            let (kk, _) = first_divergence(&small).unwrap_or((k.min(small.steps.len().saturating_sub(1)), class.clone()));
            let detail = describe(&small, kk);
            let mut rj = program_json(&small);
            rj["property"] = json!("C08");
            rj["config"] = json!(util::CONFIG_TAG);
            rj["profile"] = json!(util::profile_tag());
            rj["seed"] = json!(seed);
            rj["run"] = json!(run);
            rj["violation_class"] = json!(class);
            rj["observed"] = json!(detail);
            rj["shrunk_from"] = json!({"ops": p.steps.len(), "faults": p.faults.len(), "registers": p.init.len()});
            viol = Some(Violation { class, detail, replay: rj });
            break;
        }
    }
    RunOut {
        steps: p.steps.len() as u64,
        digest: d.finish(),
        effective,
        fired: p.faults.len() as u64,
        ineffective,
        viol,
        sample: if want_sample { Some(program_json(&p)) } else { None },
    }
}

pub fn run(seed: u64, runs: usize, workers: usize, grid: bool) -> Summary {
    let (takers, makers) = op_sets();
    let mut sum = Summary::default();
    sum.faults_fired.insert("POISON_LANE3".into(), 0);
    sum.faults_effective.insert("POISON_LANE3".into(), 0);
    let mut steps = 0u64;
    let mut ineffective = 0u64;
    let mut ops_hit: BTreeSet<usize> = BTreeSet::new();
    let mut dig = util::Digest::default();
    let sample_every = (runs / 3).max(1);
    let gcases = if grid { grid_cases(&takers) } else { Vec::new() };
    let ng = gcases.len();
    sum.extra.insert("grid_programs".into(), json!(ng));
    util::par_runs(
        ng + runs,
        workers,
        |i| {
            if i < ng {
                run_program(gen_grid_program(seed, gcases[i], i as u64), seed, i as u64, false)
            } else {
                let i = i - ng;
                run_one(seed, i as u64, &takers, &makers, i % sample_every == 0)
            }
        },
        |_, r| {
            sum.evaluations += 1;
            steps += r.steps;
            dig.push(r.digest);
            *sum.faults_fired.get_mut("POISON_LANE3").unwrap() += r.fired;
            *sum.faults_effective.get_mut("POISON_LANE3").unwrap() += r.fired - r.ineffective;
            ineffective += r.ineffective;
            for (op, pos, cls) in r.effective {
                ops_hit.insert(op);
                sum.distinct.insert(format!("{}|{}|{}", OPS[op].name, pos, cls));
            }
            if let Some(s) = r.sample {
                if sum.samples.len() < 3 {
                    sum.samples.push(s);
                }
            }
            if let Some(v) = r.viol {
                sum.violations.push(v);
            }
        },
    );
    let never: Vec<&str> = takers.iter().filter(|i| !ops_hit.contains(i)).map(|i| OPS[*i].name).collect();
    sum.digests.insert("event-log".into(), dig);
    sum.extra.insert("steps_executed".into(), json!(steps * 3));
    sum.extra.insert("ops_taking_padded_values".into(), json!(takers.len()));
    sum.extra.insert("ops_producing_padded_values".into(), json!(makers.len()));
    sum.extra.insert("ops_reached_with_effective_poison".into(), json!(ops_hit.len()));
    sum.extra.insert("ops_never_reached_with_effective_poison".into(), json!(never));
    sum.extra.insert("poisons_ineffective".into(), json!(ineffective));
    sum.extra.insert("hidden_lane_exists".into(), json!(hidden::HAS_HIDDEN_LANE));
    sum
}

pub fn replay(j: &J) -> Option<(String, String)> {
    let p = program_from_json(j);
    first_divergence(&p).map(|(k, class)| (class, describe(&p, k)))
}

/// Event-log digest of a batch, for the determinism self-test.
pub fn digest_only(seed: u64, runs: usize, workers: usize) -> u64 {
    let s = run(seed, runs, workers, false);
    let mut d = util::Digest::default();
    d.push(s.digests["event-log"].finish());
    d.push(s.evaluations);
    d.push(s.distinct.len() as u64);
    d.finish()
}

// ---------------------------------------------------------------------------------------------
// C18 (chains): the same chain machinery over *all* ops, no injected faults. The hostile sweep of C18-P calls every
// function with generated arguments; this part calls functions on the *results* of other functions (a look_at
// matrix fed to inverse, a from_rotation_arc quaternion fed to to_euler ...), where the only oracle needed is the
// crash monitor: no step may panic (the documented slice / index family is driven in range).

fn gen_chain(seed: u64, run: u64) -> Program {
    let mut rng = Rng::new(seed, "c18-chain", run);
    let n_steps = rng.range(2, 7);
    let cls = match rng.below(8) {
        0 | 1 => Cls::Ordinary,
        2 | 3 => Cls::Mix,
        4 => Cls::RandomBits,
        _ => Cls::Lattice(rng.below(NUM_F_LATTICE)),
    };
    // a chain is about a family of types: pick an owner and prefer its ops, so that results get consumed
    let owner = OPS[rng.below(OPS.len())].owner;
    let mut g = Gen { rng: &mut rng, next_id: 0, reg_ty: Vec::new(), init: Vec::new(), fresh_vals: Vec::new(), cls };
    let mut steps = Vec::new();
    for _ in 0..n_steps {
        // prefer an op that can consume something already produced
        let mut oi = g.rng.below(OPS.len());
        for _ in 0..8 {
            let cand = g.rng.below(OPS.len());
            let o = &OPS[cand];
            let consumes = o.args.iter().any(|t| g.reg_ty.iter().any(|(_, rt)| rt == t && !matches!(t, Ty::S(_))));
            if (o.owner == owner || g.rng.chance(1, 4)) && (consumes || g.reg_ty.is_empty()) && o.fname != "fmt_sink" {
                oi = cand;
                break;
            }
        }
        let op = &OPS[oi];
        let args: Vec<RegId> = op.args.iter().map(|t| g.pick_arg(t, op)).collect();
        let outs: Vec<RegId> = op
            .outs
            .iter()
            .map(|t| {
                let id = g.next_id;
                g.next_id += 1;
                g.reg_ty.push((id, *t));
                id
            })
            .collect();
        steps.push(Step { op: oi, args, outs });
    }
    Program { init: g.init, steps, faults: Vec::new() }
}

fn first_panic(p: &Program) -> Option<(usize, String)> {
    let t = execute(p, Variant::None, false);
    t.steps.iter().enumerate().find_map(|(k, s)| match s {
        StepLog::Panic(m) => Some((k, m.clone())),
        _ => None,
    })
}

fn shrink_chain(p: &Program, class: &str) -> Program {
    let same = |q: &Program| matches!(first_panic(q), Some((k, _)) if format!("panic:{}", OPS[q.steps[k].op].name) == class);
    let mut cur = p.clone();
    if let Some((k, _)) = first_panic(&cur) {
        cur.steps.truncate(k + 1);
    }
    let mut progress = true;
    while progress {
        progress = false;
        for k in (0..cur.steps.len().saturating_sub(1)).rev() {
            let tr = execute(&cur, Variant::None, false);
            let mut cand = cur.clone();
            let st = cand.steps.remove(k);
            for id in &st.outs {
                if let Some(v) = tr.regs.get(id) {
                    cand.init.push((*id, v.clone()));
                }
            }
            if same(&cand) {
                cur = cand;
                if let Some((k2, _)) = first_panic(&cur) {
                    cur.steps.truncate(k2 + 1);
                }
                progress = true;
                break;
            }
        }
    }
    let used: BTreeSet<RegId> = cur.steps.iter().flat_map(|s| s.args.iter().copied()).collect();
    cur.init.retain(|(id, _)| used.contains(id));
    cur
}

pub fn run_c18_chains(seed: u64, runs: usize, workers: usize) -> Summary {
    let mut sum = Summary::default();
    sum.faults_fired.insert("COMPOSED_CALL".into(), 0);
    sum.faults_effective.insert("COMPOSED_CALL".into(), 0);
    let mut steps = 0u64;
    let mut consumed = 0u64;
    util::par_runs(
        runs,
        workers,
        |i| {
            let p = gen_chain(seed, i as u64);
            let ninit: BTreeSet<RegId> = p.init.iter().map(|(id, _)| *id).collect();
            // how many arguments were results of earlier steps (the point of this part)
            let fed = p.steps.iter().flat_map(|s| s.args.iter()).filter(|a| !ninit.contains(a)).count() as u64;
            let viol = first_panic(&p).map(|(k, msg)| {
                let class = format!("panic:{}", OPS[p.steps[k].op].name);
                let small = shrink_chain(&p, &class);
                let (k2, msg2) = first_panic(&small).unwrap_or((k.min(small.steps.len() - 1), msg));
                let tr = execute(&small, Variant::None, true);
                let args: Vec<String> = small.steps[k2].args.iter().map(|r| tr.regs.get(r).map(|v| v.render()).unwrap_or_default()).collect();
                let detail = format!("in a composition of {} call(s): {}({}) panicked: {}", small.steps.len(), OPS[small.steps[k2].op].name, args.join(", "), msg2);
                let mut rj = program_json(&small);
                rj["property"] = json!("C18");
                rj["part"] = json!("chain");
                rj["config"] = json!(util::CONFIG_TAG);
                rj["profile"] = json!(util::profile_tag());
                rj["seed"] = json!(seed);
                rj["run"] = json!(i);
                rj["violation_class"] = json!(class);
                rj["observed"] = json!(detail);
                rj["shrunk_from"] = json!({"ops": p.steps.len(), "registers": p.init.len()});
                Violation { class, detail, replay: rj }
            });
            (p.steps.len() as u64, fed, viol, if i % (runs / 2 + 1) == 0 { Some(program_json(&p)) } else { None })
        },
        |_, (n, fed, viol, sample)| {
            sum.evaluations += 1;
            steps += n;
            consumed += fed;
            *sum.faults_fired.get_mut("COMPOSED_CALL").unwrap() += n;
            *sum.faults_effective.get_mut("COMPOSED_CALL").unwrap() += fed;
            if let Some(s) = sample {
                if sum.samples.len() < 2 {
                    sum.samples.push(s);
                }
            }
            if let Some(v) = viol {
                sum.violations.push(v);
            }
        },
    );
    sum.distinct.insert(format!("chains-{runs}"));
    sum.distinct.insert(format!("steps-{steps}"));
    sum.extra.insert("steps_executed".into(), json!(steps));
    sum.extra.insert("arguments_fed_from_earlier_results".into(), json!(consumed));
    sum
}

pub fn replay_c18_chain(j: &J) -> Option<(String, String)> {
    let p = program_from_json(j);
    first_panic(&p).map(|(k, msg)| {
        let tr = execute(&p, Variant::None, true);
        let args: Vec<String> = p.steps[k].args.iter().map(|r| tr.regs.get(r).map(|v| v.render()).unwrap_or_default()).collect();
        (
            format!("panic:{}", OPS[p.steps[k].op].name),
            format!("in a composition of {} call(s): {}({}) panicked: {}", p.steps.len(), OPS[p.steps[k].op].name, args.join(", "), msg),
        )
    })
}
