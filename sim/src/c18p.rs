//! C18 (P) — hostile-argument sweep: every public function / operator / trait method of the
//! float types is called under the crash monitor (`catch_unwind`) with special-value-lattice
//! arguments in every argument position. A panic is a violation unless the function belongs to
//! the documented slice / index family — and that family is fed in-range lengths and indices
//! here (part M owns the out-of-range side), so *any* panic observed in this part is one.
//! Also: Display / Debug into a sink that fails at its k-th write (SINK_ERR@k).

#![allow(dead_code)]

use crate::ops::{OpDesc, OPS};
use crate::report::{Summary, Violation};
use crate::rng::Rng;
use crate::util;
use crate::val::*;
use serde_json::{json, Value as J};
use std::collections::HashSet;

pub const DOC_PANIC_FNS: &[&str] = &[
    "from_slice", "write_to_slice", "from_cols_slice", "write_cols_to_slice", "index", "index_mut", "col", "col_mut", "row",
    "test", "set", "from_mat3_minor", "from_mat3a_minor", "from_mat4_minor",
];

fn isqrt(n: usize) -> usize {
    (1..=n).take_while(|k| k * k <= n).last().unwrap_or(1)
}

/// number of elements a slice argument must at least have / bound on index arguments
fn limits(op: &OpDesc) -> (usize, usize) {
    let owner_n = TyId::from_name(op.owner).map(|t| t.n()).unwrap_or(4);
    let idx_limit = match op.fname {
        "col" | "col_mut" | "row" => isqrt(owner_n),
        "from_mat3_minor" | "from_mat3a_minor" | "from_mat4_minor" => match op.args.first() {
            Some(Ty::G(t)) => isqrt(t.n()),
            _ => 3,
        },
        _ => owner_n,
    };
    (owner_n, idx_limit)
}

fn float_elem_count(v: &Val) -> usize {
    match v {
        Val::F32(_) | Val::F64(_) => 1,
        Val::Arr(xs) | Val::Tup(xs) | Val::Slice(xs) => xs.iter().map(float_elem_count).sum(),
        Val::Opt(Some(x)) => float_elem_count(x),
        g => match g.glam_bits() {
            Some((t, b)) if matches!(t.elem(), Elem::F32 | Elem::F64) => b.len(),
            _ => 0,
        },
    }
}

/// replace the k-th float element (in traversal order) by lattice entry `li` (or ordinary 1.0)
fn set_float_elem(v: &Val, k: &mut isize, li: Option<usize>) -> Val {
    let pick32 = |li: Option<usize>| li.map(|i| F32_LATTICE[i % NUM_F_LATTICE].1).unwrap_or(0x3f80_0000);
    let pick64 = |li: Option<usize>| li.map(|i| F64_LATTICE[i % NUM_F_LATTICE].1).unwrap_or(0x3ff0_0000_0000_0000);
    match v {
        Val::F32(_) => {
            *k -= 1;
            if *k == -1 { Val::F32(f32::from_bits(pick32(li))) } else { v.clone() }
        }
        Val::F64(_) => {
            *k -= 1;
            if *k == -1 { Val::F64(f64::from_bits(pick64(li))) } else { v.clone() }
        }
        Val::Arr(xs) => Val::Arr(xs.iter().map(|x| set_float_elem(x, k, li)).collect()),
        Val::Tup(xs) => Val::Tup(xs.iter().map(|x| set_float_elem(x, k, li)).collect()),
        Val::Slice(xs) => Val::Slice(xs.iter().map(|x| set_float_elem(x, k, li)).collect()),
        Val::Opt(Some(x)) => Val::Opt(Some(Box::new(set_float_elem(x, k, li)))),
        g => match g.glam_bits() {
            Some((t, mut b)) if matches!(t.elem(), Elem::F32 | Elem::F64) => {
                let mut changed = false;
                for e in b.iter_mut() {
                    *k -= 1;
                    if *k == -1 {
                        *e = if t.elem() == Elem::F32 { pick32(li) as u64 } else { pick64(li) };
                        changed = true;
                    }
                }
                if changed { t.from_bits(&b) } else { g.clone() }
            }
            _ => g.clone(),
        },
    }
}

pub const ITER_LENS_SMALL: usize = 21;

fn gen_arg(op: &OpDesc, i: usize, rng: &mut Rng, cls: Cls) -> Val {
    let (n, idx_limit) = limits(op);
    let doc = DOC_PANIC_FNS.contains(&op.fname);
    match &op.args[i] {
        Ty::S(Elem::Usize) => {
            if op.fname == "fmt_sink" {
                Val::Usize(usize::MAX)
            } else if op.fname == "fmt_spec" {
                Val::Usize(rng.below(crate::ops::N_FMT_SPECS))
            } else if op.fname.ends_with("_n") {
                // index into ITER_LENS; the long ones are enumerated by `sweep_op`, samples and chains stay below 300 items
                Val::Usize(rng.below(ITER_LENS_SMALL))
            } else if doc {
                Val::Usize(rng.below(idx_limit))
            } else {
                Val::Usize(rng.below(5))
            }
        }
        ty @ Ty::Slice(_) => {
            let len = if doc { n + rng.below(3) } else { rng.below(6) };
            gen_val(ty, rng, cls, len)
        }
        ty => gen_val(ty, rng, cls, 4),
    }
}

#[derive(Clone, Debug)]
enum Case {
    /// argument `pos` uniformly lattice value `li`, others ordinary
    ArgUniform { pos: usize, li: usize },
    /// one float element of argument `pos` is lattice value `li`, everything else ordinary
    ArgOneLane { pos: usize, li: usize, lane: usize },
    /// all float arguments uniformly (li1 for the first, li2 for the rest)
    Product { li1: usize, li2: usize },
    /// two float elements anywhere in the argument list get (different) lattice values, the rest ordinary
    TwoLanes { k: usize },
    /// structured relations between arguments: the first float vector / quaternion argument is axis-aligned (one lane
    /// +-m, the others +-0), every other argument of the same type stands in a relation to it (equal, opposite,
    /// parallel, anti-parallel, orthogonal axis, ordinary), scalar arguments take a few plain values
    Related { base: usize, rel: usize, sc: usize },
    /// argument `pos` uniformly a value next to a power of two (2^k + d, d in {-1, -0.5, 0, 0.5, 1}, both signs): the
    /// boundaries of integer types and of float precision, where a float -> integer intermediate goes wrong
    Boundary { pos: usize, bi: usize },
    /// every float-bearing glam argument takes a *structured* value (identity / zero / singular / two equal columns /
    /// 180-degree rotation / permutation matrices; identity, negated identity, half-turn quaternions; axis-aligned,
    /// diagonal, parallel and anti-parallel non-axis vectors ...): product over the arguments (sampled if large)
    Structured { combo: usize },
    /// a structured combination with every float glam argument scaled by 1 + d (d = +-1e-7 ... +-1e-2): *nearly* unit
    /// quaternions, nearly orthonormal / nearly singular matrices, nearly parallel vectors - the other side of every
    /// `is_normalized` / epsilon comparison
    NearStructured { combo: usize, di: usize },
    /// integer table: the first argument uniformly edge value li1, every other one li2
    IntProduct { li1: usize, li2: usize },
    /// every float element drawn independently from the swarm mix
    Sample { k: usize },
}

fn cases_of(op: &OpDesc, samples: usize) -> Vec<Case> {
    let mut v = Vec::new();
    let fpos: Vec<usize> = (0..op.args.len()).filter(|i| op.args[*i].is_float_bearing()).collect();
    // element counts are a property of the type, not of the value: probe with a throw-away value
    let mut probe_rng = Rng::new(0, "c18p-probe", 0);
    for &pos in &fpos {
        let cnt = float_elem_count(&gen_arg(op, pos, &mut probe_rng, Cls::Ordinary)).max(1);
        for li in 0..NUM_F_LATTICE {
            v.push(Case::ArgUniform { pos, li });
            // every (element, lattice value) pair, the other elements ordinary
            for lane in 0..cnt.min(16) {
                v.push(Case::ArgOneLane { pos, li, lane });
            }
        }
    }
    if fpos.is_empty() {
        // integer (and mask) arguments: every argument uniformly each edge value (0, 1, -1 / MAX, MIN, MAX, 2), and all pairs
        let ipos: Vec<usize> = (0..op.args.len()).filter(|i| matches!(&op.args[*i], Ty::G(_) | Ty::S(_) | Ty::Arr(..) | Ty::Tup(_))).collect();
        for &pos in &ipos {
            for li in 0..6 {
                v.push(Case::ArgUniform { pos, li });
            }
        }
        if ipos.len() >= 2 {
            for li1 in 0..6 {
                for li2 in 0..6 {
                    v.push(Case::IntProduct { li1, li2 });
                }
            }
        }
    }
    if !fpos.is_empty() {
        for li1 in 0..NUM_F_LATTICE {
            for li2 in 0..NUM_F_LATTICE {
                if fpos.len() == 1 && li2 != 0 {
                    continue;
                }
                v.push(Case::Product { li1, li2 });
            }
        }
    }
    if let Some((t, _)) = related_base(op) {
        // axis-aligned bases, then 2n generic ones (lanes of distinct magnitude, rotated so that each lane is once the
        // smallest and once the largest, in both signs)
        let nb = t.n() * 2 * 4 * 2 + 2 * t.n();
        for base in 0..nb {
            for rel in 0..6 {
                for sc in 0..5 {
                    v.push(Case::Related { base, rel, sc });
                }
            }
        }
    }
    for &pos in &fpos {
        for bi in 0..boundary_values().len() {
            v.push(Case::Boundary { pos, bi });
        }
    }
    let total = structured_total(op);
    if total > 0 {
        for combo in 0..total.min(4096) {
            v.push(Case::Structured { combo });
        }
    }
    if total > 0 {
        for combo in 0..total.min(192) {
            for di in 0..NEAR_DELTAS.len() {
                v.push(Case::NearStructured { combo, di });
            }
        }
    }
    let ns = if op.args.is_empty() { 1 } else { samples };
    for k in 0..ns {
        v.push(Case::Sample { k });
    }
    if !fpos.is_empty() {
        for k in 0..ns {
            v.push(Case::TwoLanes { k });
        }
    }
    v
}

const NEAR_DELTAS: [f64; 8] = [1.2e-7, -1.2e-7, 1e-6, -3e-6, 1e-4, -2e-4, 1e-3, -1e-2];

/// every float element of the glam values among `v` scaled by `k` (scalars are left alone: angles and parameters)
fn scale_glam(v: &Val, k: f64) -> Val {
    match v.glam_bits() {
        Some((t, b)) if matches!(t.elem(), Elem::F32 | Elem::F64) => {
            let e = t.elem();
            t.from_bits(&b.iter().map(|x| if e == Elem::F32 { ((f32::from_bits(*x as u32) as f64 * k) as f32).to_bits() as u64 } else { (f64::from_bits(*x) * k).to_bits() }).collect::<Vec<_>>())
        }
        _ => v.clone(),
    }
}

fn boundary_values() -> &'static [f64] {
    use std::sync::OnceLock;
    static B: OnceLock<Vec<f64>> = OnceLock::new();
    B.get_or_init(|| {
        let mut v = Vec::new();
        for k in [7, 8, 15, 16, 23, 24, 31, 32, 52, 53, 63, 64, 127, 128] {
            let p = 2f64.powi(k);
            for d in [-1.0, -0.5, 0.0, 0.5, 1.0] {
                v.push(p + d);
                v.push(-(p + d));
            }
        }
        v
    })
}

/// every float element of `v` := x (rounded to the element type)
fn fill_floats(v: &Val, x: f64) -> Val {
    match v {
        Val::F32(_) => Val::F32(x as f32),
        Val::F64(_) => Val::F64(x),
        Val::Arr(xs) => Val::Arr(xs.iter().map(|e| fill_floats(e, x)).collect()),
        Val::Tup(xs) => Val::Tup(xs.iter().map(|e| fill_floats(e, x)).collect()),
        Val::Slice(xs) => Val::Slice(xs.iter().map(|e| fill_floats(e, x)).collect()),
        Val::Opt(Some(e)) => Val::Opt(Some(Box::new(fill_floats(e, x)))),
        g => match g.glam_bits() {
            Some((t, b)) if matches!(t.elem(), Elem::F32 | Elem::F64) => t.from_bits(&b.iter().map(|_| fbits(t.elem(), x)).collect::<Vec<_>>()),
            _ => g.clone(),
        },
    }
}

/// Structured values of a float glam type, by index. Lanes are given as small exact numbers; `None` past the end.
fn structured(t: TyId, k: usize) -> Option<Val> {
    let e = t.elem();
    if !matches!(e, Elem::F32 | Elem::F64) {
        return None;
    }
    let n = t.n();
    let name = t.name();
    let mk = |ls: &[f64]| Some(t.from_bits(&ls.iter().map(|x| fbits(e, *x)).collect::<Vec<_>>()));
    let h = 0.5f64.sqrt();
    if name.contains("Quat") {
        let list: [[f64; 4]; 11] = [
            [0.0, 0.0, 0.0, 1.0], [0.0, 0.0, 0.0, -1.0], [1.0, 0.0, 0.0, 0.0], [0.0, 1.0, 0.0, 0.0], [0.0, 0.0, 1.0, 0.0],
            [h, 0.0, 0.0, h], [0.0, h, 0.0, -h], [0.5, 0.5, 0.5, 0.5], [0.0, 0.0, 0.0, 0.0], [1.0, 2.0, 3.0, 4.0], [-1.0, -2.0, -3.0, -4.0],
        ];
        return list.get(k).and_then(|l| mk(l));
    }
    let (cols, rows, tr) = match name {
        "Mat2" | "DMat2" => (2, 2, 0),
        "Mat3" | "Mat3A" | "DMat3" => (3, 3, 0),
        "Mat4" | "DMat4" => (4, 4, 0),
        "Affine2" | "DAffine2" => (2, 2, 2),
        "Affine3A" | "DAffine3" => (3, 3, 3),
        _ => (0, 0, 0),
    };
    if cols > 0 {
        // matrix part, column-major
        let d = cols;
        let ident = |v: f64| -> Vec<f64> { (0..d * d).map(|i| if i / d == i % d { v } else { 0.0 }).collect() };
        let mut m: Vec<f64> = match k % 16 {
            0 => ident(1.0),
            1 => ident(0.0),
            2 => ident(-1.0),
            3 => { let mut m = ident(1.0); m[d + 1] = 0.0; m }                             // one zero on the diagonal (a zero scale); last row stays (0,..,0,1)
            4 => { let mut m = ident(1.0); for r in 0..d { m[d + r] = m[r]; } m }           // two equal columns, still affine
            5 => { let mut m: Vec<f64> = (0..d * d).map(|i| 1.0 + i as f64).collect(); for c in 0..d { m[c * d] = 0.0; } m } // zero row
            6 => { let mut m = ident(1.0); m[0] = -1.0; m[d + 1] = -1.0; m }                // half turn about the last axis
            7 => { let mut m = ident(1.0); m[0] = 0.0; m[1] = 1.0; m[d] = -1.0; m[d + 1] = 0.0; m } // quarter turn
            8 => (0..d * d).map(|i| (1 + i % d) as f64 * (1 + i / d) as f64).collect(),     // rank one
            9 => { let mut m = ident(1.0); m[0] = 0.0; m[1] = 1.0; m[d] = 1.0; m[d + 1] = 0.0; m } // permutation (reflection)
            10 => vec![1.0; d * d],
            11 => (0..d * d).map(|i| if i % d < i / d { 1.0 + i as f64 } else { 0.0 }).collect(), // strictly triangular
            12 => (0..d * d).map(|i| 1.0 + i as f64).collect(),                             // generic
            13 => { let mut m = ident(1.0); m[d * d - 1] = 0.0; m }                       // zero in the last diagonal entry
            14 => { let mut m = ident(0.0); m[d * d - 1] = 1.0; m }                       // zero scale, affine
            _ => ident(1e20),
        };
        if k >= 32 {
            return None;
        }
        if tr > 0 {
            let t: Vec<f64> = if k / 16 == 0 { vec![0.0; tr] } else { (0..tr).map(|i| 1.0 + i as f64).collect() };
            m.extend(t);
        } else if k / 16 == 1 {
            // second pass for plain matrices: the transpose-asymmetric variant of each shape
            m.swap(1, d);
        }
        if m.len() != n {
            return None;
        }
        return mk(&m);
    }
    // plain vectors
    let base: [f64; 4] = [1.0, 2.0, 3.0, 4.0];
    let v: Vec<f64> = match k {
        k if k < 2 * n => (0..n).map(|l| if l == k / 2 { if k % 2 == 0 { 1.0 } else { -1.0 } } else { 0.0 }).collect(),
        k if k == 2 * n => vec![1.0; n],
        k if k == 2 * n + 1 => (0..n).map(|l| if l + 1 == n { 0.0 } else { 1.0 }).collect(),
        k if k == 2 * n + 2 => base[..n].to_vec(),
        k if k == 2 * n + 3 => base[..n].iter().map(|x| -2.0 * x).collect(),
        k if k == 2 * n + 4 => vec![0.0; n],
        k if k == 2 * n + 5 => (0..n).map(|l| [0.6, 0.8, 0.0, 0.0][l]).collect(),
        k if k == 2 * n + 6 => base[..n].iter().map(|x| 1e-25 * x).collect(),
        k if k == 2 * n + 7 => base[..n].iter().map(|x| 1e25 * x).collect(),
        k if k == 2 * n + 8 => vec![-0.0; n],
        _ => return None,
    };
    mk(&v)
}

pub(crate) fn structured_count(ty: &Ty) -> usize {
    use std::sync::OnceLock;
    static COUNTS: OnceLock<std::collections::HashMap<TyId, usize>> = OnceLock::new();
    match ty {
        Ty::G(t) => *COUNTS
            .get_or_init(|| ALL_TYIDS.iter().map(|t| (*t, (0..64).take_while(|k| structured(*t, *k).is_some()).count())).collect())
            .get(t)
            .unwrap_or(&0),
        Ty::S(Elem::F32) | Ty::S(Elem::F64) => 9,
        // the rotation order is an input of the same standing as the angles: all 24, not one drawn at random
        Ty::Euler => EULER_ALL.len(),
        _ => 0,
    }
}

/// number of structured combinations of an op (0 when no glam float argument)
pub(crate) fn structured_total(op: &OpDesc) -> usize {
    if !op.args.iter().any(|t| matches!(t, Ty::G(id) if matches!(id.elem(), Elem::F32 | Elem::F64))) {
        return 0;
    }
    op.args.iter().map(|t| structured_count(t).max(1)).fold(1usize, |a, b| a.saturating_mul(b))
}

fn structured_args(op: &OpDesc, combo: usize, rng: &mut Rng) -> Vec<Val> {
    let total = structured_total(op);
    // enumerate the product when it is small, otherwise a deterministic pseudo-random walk through it
    let idx = if total <= 4096 { combo } else { (combo as u64).wrapping_mul(0x9E37_79B9_7F4A_7C15) as usize % total };
    structured_args_enum(op, idx, rng)
}

/// the `idx`-th element of the product of the arguments' structured lists
pub(crate) fn structured_args_enum(op: &OpDesc, idx: usize, rng: &mut Rng) -> Vec<Val> {
    let mut idx = idx;
    let scal = [0.0, 0.5, 1.0, -1.0, core::f64::consts::PI, 2.0, core::f64::consts::FRAC_PI_2, -core::f64::consts::FRAC_PI_2, 1.0 / 3.0];
    (0..op.args.len())
        .map(|i| {
            let c = structured_count(&op.args[i]);
            if c == 0 {
                return gen_arg(op, i, rng, Cls::Ordinary);
            }
            let k = idx % c;
            idx /= c;
            match &op.args[i] {
                Ty::G(t) => structured(*t, k).unwrap(),
                Ty::S(Elem::F32) => Val::F32(scal[k] as f32),
                Ty::S(Elem::F64) => Val::F64(scal[k]),
                Ty::Euler => Val::Euler(EULER_ALL[k]),
                _ => unreachable!(),
            }
        })
        .collect()
}

/// the first float vector / quaternion argument, if at least one more float-bearing argument exists
pub(crate) fn related_base(op: &OpDesc) -> Option<(TyId, usize)> {
    let fcount = op.args.iter().filter(|t| t.is_float_bearing()).count();
    if fcount < 2 {
        return None;
    }
    op.args.iter().enumerate().find_map(|(i, t)| match t {
        Ty::G(id) if matches!(id.elem(), Elem::F32 | Elem::F64) && id.n() <= 4 && !id.name().contains("Mat") => Some((*id, i)),
        _ => None,
    })
}

/// lanes of pairwise distinct magnitude and mixed sign, rotated by `k % n` (every lane is once the smallest and once the
/// largest in magnitude); `k >= n` negates
pub(crate) fn generic_shape(n: usize, k: usize) -> Vec<f64> {
    let sh = [3.0, 2.0, 0.5, -1.25];
    let sg = if (k / n) % 2 == 1 { -1.0 } else { 1.0 };
    (0..n).map(|l| sg * sh[(l + n - k % n) % n]).collect()
}

fn fbits(e: Elem, x: f64) -> u64 {
    if e == Elem::F32 { (x as f32).to_bits() as u64 } else { x.to_bits() }
}

fn related_args(op: &OpDesc, base: usize, rel: usize, sc: usize, rng: &mut Rng) -> Vec<Val> {
    let (t, bi) = related_base(op).unwrap();
    let n = t.n();
    let e = t.elem();
    let axis = base % n;
    let neg = (base / n) % 2 == 1;
    let mag = [1.0, 2.5, 1e-20, 1e20][(base / (2 * n)) % 4];
    let zneg = (base / (8 * n)) % 2 == 1;
    let zero = if zneg { -0.0 } else { 0.0 };
    let mut lanes: Vec<f64> = (0..n).map(|l| if l == axis { if neg { -mag } else { mag } } else { zero }).collect();
    if base >= 16 * n {
        lanes = generic_shape(n, base - 16 * n);
    }
    let mk = |ls: &[f64]| t.from_bits(&ls.iter().map(|x| fbits(e, *x)).collect::<Vec<_>>());
    let scalars = [0.0, 0.5, 1.0, -1.0];
    (0..op.args.len())
        .map(|i| {
            if i == bi {
                return mk(&lanes);
            }
            match &op.args[i] {
                Ty::G(id) if *id == t => match rel {
                    0 => mk(&lanes),
                    1 => mk(&lanes.iter().map(|x| -x).collect::<Vec<_>>()),
                    2 => mk(&lanes.iter().map(|x| 2.0 * x).collect::<Vec<_>>()),
                    3 => mk(&lanes.iter().map(|x| -0.5 * x).collect::<Vec<_>>()),
                    4 => {
                        let mut o = vec![zero; n];
                        o[(axis + 1) % n] = mag;
                        mk(&o)
                    }
                    _ => gen_arg(op, i, rng, Cls::Ordinary),
                },
                Ty::S(Elem::F32) if sc < 4 => Val::F32(scalars[sc] as f32),
                Ty::S(Elem::F64) if sc < 4 => Val::F64(scalars[sc]),
                _ => gen_arg(op, i, rng, Cls::Ordinary),
            }
        })
        .collect()
}

fn make_args(op: &OpDesc, oi: usize, case: &Case, ci: usize, seed: u64) -> Vec<Val> {
    let mut rng = Rng::new(seed, "c18p-args", (oi as u64) << 24 | ci as u64);
    let fpos: Vec<usize> = (0..op.args.len()).filter(|i| op.args[*i].is_float_bearing()).collect();
    if let Case::Related { base, rel, sc } = case {
        return related_args(op, *base, *rel, *sc, &mut rng);
    }
    if let Case::Structured { combo } = case {
        return structured_args(op, *combo, &mut rng);
    }
    if let Case::NearStructured { combo, di } = case {
        let total = structured_total(op);
        // a stride walk, so that the 192 combinations spread over the whole product
        let idx = if total <= 192 { *combo } else { ((*combo as u64 * 0x9E37_79B1) % total as u64) as usize };
        return structured_args_enum(op, idx, &mut rng).iter().map(|a| scale_glam(a, 1.0 + NEAR_DELTAS[*di])).collect();
    }
    if let Case::TwoLanes { .. } = case {
        let mut args: Vec<Val> = (0..op.args.len()).map(|i| gen_arg(op, i, &mut rng, Cls::Ordinary)).collect();
        for _ in 0..2 {
            let i = *rng.pick(&fpos);
            let cnt = float_elem_count(&args[i]).max(1);
            let mut k = rng.below(cnt) as isize;
            args[i] = set_float_elem(&args[i], &mut k, Some(rng.below(NUM_F_LATTICE)));
        }
        return args;
    }
    (0..op.args.len())
        .map(|i| match case {
            Case::ArgUniform { pos, li } if *pos == i => gen_arg(op, i, &mut rng, Cls::Lattice(*li)),
            Case::ArgOneLane { pos, li, lane } if *pos == i => {
                let base = gen_arg(op, i, &mut rng, Cls::Ordinary);
                let cnt = float_elem_count(&base).max(1);
                let mut k = (*lane % cnt) as isize;
                set_float_elem(&base, &mut k, Some(*li))
            }
            Case::Boundary { pos, bi } if *pos == i => fill_floats(&gen_arg(op, i, &mut rng, Cls::Ordinary), boundary_values()[*bi]),
            Case::Product { li1, li2 } => {
                let li = if fpos.first() == Some(&i) { *li1 } else { *li2 };
                gen_arg(op, i, &mut rng, Cls::Lattice(li))
            }
            Case::IntProduct { li1, li2 } => gen_arg(op, i, &mut rng, Cls::Lattice(if i == 0 { *li1 } else { *li2 })),
            Case::Sample { .. } => gen_arg(op, i, &mut rng, Cls::Mix),
            _ => gen_arg(op, i, &mut rng, Cls::Ordinary),
        })
        .collect()
}

fn norm_msg(m: &str) -> String {
    // panic messages carry operand values; normalise digits so the class is stable
    let mut s: String = m.chars().map(|c| if c.is_ascii_digit() { '#' } else { c }).collect();
    while s.contains("##") {
        s = s.replace("##", "#");
    }
    s.chars().take(100).collect()
}

fn render_args(op: &OpDesc, args: &[Val]) -> String {
    let v: Vec<String> = args.iter().enumerate().map(|(i, a)| format!("{}={}", op.arg_names.get(i).copied().unwrap_or("?"), a.render())).collect();
    v.join(", ")
}

/// Functions of the integer vector types whose result is defined through primitive integer arithmetic: there (and only
/// there) the primitive's own panic - overflow in builds with overflow checks, division or remainder by zero, MIN / -1,
/// an over-wide shift - is the documented behaviour. *Where exactly* they panic is judged lane by lane against the
/// primitive in `c18i`; this sweep only demands that nothing else panics, and that these panic with nothing else.
pub const INT_ARITH_FNS: &[&str] = &[
    "add", "sub", "mul", "div", "rem", "neg", "shl", "shr", "add_assign", "sub_assign", "mul_assign", "div_assign", "rem_assign",
    "shl_assign", "shr_assign", "abs", "dot", "dot_into_vec", "cross", "perp", "perp_dot", "rotate", "length_squared", "distance_squared", "element_sum",
    "element_product", "div_euclid", "rem_euclid", "manhattan_distance", "sum", "product", "sum_n", "product_n",
    "wrapping_div", "saturating_div", "wrapping_rem",
];

fn is_int_arith_panic(op: &OpDesc, p: &util::Panic) -> bool {
    let int_owner = TyId::from_name(op.owner).map(|t| !matches!(t.elem(), Elem::F32 | Elem::F64 | Elem::Bool)).unwrap_or(false)
        || op.args.iter().chain(op.outs.iter()).any(|t| matches!(t, Ty::G(id) if !matches!(id.elem(), Elem::F32 | Elem::F64 | Elem::Bool)));
    int_owner && INT_ARITH_FNS.contains(&op.fname) && p.msg.starts_with("attempt to ")
}

fn call(op: &OpDesc, args: &[Val]) -> Result<Vec<Val>, util::Panic> {
    match util::catch(|| (op.f)(args)) {
        Err(p) if is_int_arith_panic(op, &p) => {
            INT_ARITH_PANICS.fetch_add(1, std::sync::atomic::Ordering::Relaxed);
            Ok(Vec::new())
        }
        r => r,
    }
}

pub static INT_ARITH_PANICS: std::sync::atomic::AtomicU64 = std::sync::atomic::AtomicU64::new(0);

fn shrink(op: &OpDesc, args: &[Val], class: &str) -> Vec<Val> {
    let mut cur: Vec<Val> = args.to_vec();
    for i in 0..cur.len() {
        let cnt = float_elem_count(&cur[i]);
        for k in 0..cnt {
            let mut kk = k as isize;
            let cand = set_float_elem(&cur[i], &mut kk, None);
            if cand.obs_vec() == cur[i].obs_vec() {
                continue;
            }
            let mut trial = cur.clone();
            trial[i] = cand;
            if let Err(p) = call(op, &trial) {
                if format!("panic:{}", op.name) == class {
                    let _ = p;
                    cur = trial;
                }
            }
        }
    }
    cur
}

fn replay_json(op: &OpDesc, args: &[Val], seed: u64, class: &str, detail: &str) -> J {
    json!({
        "property": "C18", "part": "P", "config": util::CONFIG_TAG, "profile": util::profile_tag(), "seed": seed,
        "op": op.name, "args": args.iter().map(|a| a.to_json()).collect::<Vec<_>>(),
        "violation_class": class, "observed": detail,
    })
}

struct OpResult {
    evals: u64,
    distinct: u64,
    lattice_hits: u64,
    viol: Option<Violation>,
    sample: Option<J>,
    sink_cases: u64,
    sink_effective: u64,
}

fn sweep_op(oi: usize, seed: u64, samples: usize) -> OpResult {
    let op = &OPS[oi];
    let mut res = OpResult { evals: 0, distinct: 0, lattice_hits: 0, viol: None, sample: None, sink_cases: 0, sink_effective: 0 };
    let mut seen: HashSet<u64> = HashSet::new();
    if op.fname == "fmt_sink" {
        sink_op(oi, seed, &mut res);
        return res;
    }
    if op.fname == "fmt_spec" {
        // the Formatter's state is an argument too: every spec of the grid x a few values
        for k in 0..crate::ops::N_FMT_SPECS {
            for vi in 0..6usize {
                let mut rng = Rng::new(seed, "c18p-spec", (oi as u64) << 16 | (k as u64) << 4 | vi as u64);
                let cls = match vi { 0 => Cls::Ordinary, 1 => Cls::Lattice(15), 2 => Cls::Lattice(1), 3 => Cls::Lattice(13), _ => Cls::Mix };
                let args = vec![gen_val(&op.args[0], &mut rng, cls, 4), Val::Usize(k)];
                res.evals += 1;
                res.distinct += 1;
                if let Err(p) = call(op, &args) {
                    if res.viol.is_none() {
                        let class = format!("panic:{}", op.name);
                        let detail = format!("panicked: {} at {} with {} (format spec #{k} of the grid in apigen.py FMT_SPECS)", p.msg, p.loc, render_args(op, &args));
                        res.viol = Some(Violation { class: class.clone(), detail: detail.clone(), replay: replay_json(op, &args, seed, &class, &detail) });
                    }
                }
            }
        }
        return res;
    }
    if op.fname.ends_with("_n") {
        // the iterator's length is an argument too: every length of the list x a few values (the value cases below
        // run with short lengths)
        for k in 0..crate::ops::ITER_LENS.len() {
            for vi in 0..5usize {
                let mut rng = Rng::new(seed, "c18p-len", (oi as u64) << 16 | (k as u64) << 4 | vi as u64);
                let cls = match vi { 0 => Cls::Ordinary, 1 => Cls::Lattice(0), 2 => Cls::Lattice(13), 3 => Cls::Lattice(9), _ => Cls::Mix };
                let args = vec![gen_val(&op.args[0], &mut rng, cls, 4), gen_val(&op.args[1], &mut rng, cls, 4), Val::Usize(k)];
                res.evals += 1;
                res.distinct += 1;
                if let Err(p) = call(op, &args) {
                    if res.viol.is_none() {
                        let class = format!("panic:{}", op.name);
                        let detail = format!("panicked: {} at {} with {} ({} items)", p.msg, p.loc, render_args(op, &args), crate::ops::ITER_LENS[k]);
                        res.viol = Some(Violation { class: class.clone(), detail: detail.clone(), replay: replay_json(op, &args, seed, &class, &detail) });
                    }
                }
            }
        }
    }
    let cases = cases_of(op, samples);
    for (ci, case) in cases.iter().enumerate() {
        let args = make_args(op, oi, case, ci, seed);
        let mut d = util::Digest::default();
        for a in &args {
            for w in a.obs_vec() {
                d.push(w);
            }
        }
        if seen.insert(d.finish()) {
            res.distinct += 1;
        }
        if !matches!(case, Case::Sample { .. } | Case::TwoLanes { .. } | Case::Related { .. } | Case::Structured { .. } | Case::NearStructured { .. } | Case::Boundary { .. }) {
            res.lattice_hits += 1;
        }
        res.evals += 1;
        if res.sample.is_none() && ci == cases.len() / 2 {
            res.sample = Some(json!({"op": op.name, "case": format!("{case:?}"), "args": render_args(op, &args)}));
        }
        if let Err(p) = call(op, &args) {
            if res.viol.is_none() {
                let class = format!("panic:{}", op.name);
                let small = shrink(op, &args, &class);
                let p2 = call(op, &small).err().unwrap_or(p);
                let detail = format!("panicked: {} at {} with {}", p2.msg, p2.loc, render_args(op, &small));
                res.viol = Some(Violation { class: class.clone(), detail: detail.clone(), replay: replay_json(op, &small, seed, &class, &detail) });
            }
        }
    }
    res
}

/// SINK_ERR@k: formatting into a sink that fails at write k must return Err, never panic, and
/// what reached the sink must be a prefix of the fault-free text.
fn sink_op(oi: usize, seed: u64, res: &mut OpResult) {
    let op = &OPS[oi];
    for vi in 0..6usize {
        let mut rng = Rng::new(seed, "c18p-sink", (oi as u64) << 8 | vi as u64);
        let cls = match vi { 0 => Cls::Ordinary, 1 => Cls::Lattice(15), 2 => Cls::Lattice(1), 3 => Cls::Lattice(13), _ => Cls::Mix };
        let x = gen_val(&op.args[0], &mut rng, cls, 4);
        let full = match call(op, &[x.clone(), Val::Usize(usize::MAX)]) {
            Ok(o) => o,
            Err(p) => {
                let class = format!("panic:{}", op.name);
                let detail = format!("panicked: {} at {} formatting {}", p.msg, p.loc, x.render());
                res.viol.get_or_insert(Violation { class: class.clone(), detail: detail.clone(), replay: replay_json(op, &[x.clone(), Val::Usize(usize::MAX)], seed, &class, &detail) });
                continue;
            }
        };
        let (Val::Str(text), Val::Bool(err0), Val::Usize(calls)) = (&full[0], &full[1], &full[2]) else { unreachable!() };
        res.evals += 1;
        if *err0 {
            let class = format!("fmt-error-without-fault:{}", op.name);
            let detail = format!("formatting {} into a healthy sink returned Err", x.render());
            res.viol.get_or_insert(Violation { class: class.clone(), detail: detail.clone(), replay: replay_json(op, &[x.clone(), Val::Usize(usize::MAX)], seed, &class, &detail) });
        }
        for k in 0..=*calls {
            res.sink_cases += 1;
            res.evals += 1;
            let args = [x.clone(), Val::Usize(k)];
            let mut fail = |class: String, detail: String| {
                if res.viol.is_none() {
                    res.viol = Some(Violation { class: class.clone(), detail: detail.clone(), replay: replay_json(op, &args, seed, &class, &detail) });
                }
            };
            match call(op, &args) {
                Err(p) => fail(format!("panic:{}", op.name), format!("sink failed at write {k}: panicked: {} at {} formatting {}", p.msg, p.loc, x.render())),
                Ok(o) => {
                    let (Val::Str(w), Val::Bool(is_err), Val::Usize(_)) = (&o[0], &o[1], &o[2]) else { unreachable!() };
                    if k < *calls {
                        res.sink_effective += 1;
                        if !*is_err {
                            fail(format!("sink-error-swallowed:{}", op.name), format!("sink failed at write {k} of {calls} but fmt returned Ok (value {})", x.render()));
                        }
                        if !text.starts_with(w.as_str()) {
                            fail(format!("sink-not-prefix:{}", op.name), format!("after failure at write {k} the sink holds {w:?}, fault-free text is {text:?}"));
                        }
                    } else if *is_err || w != text {
                        fail(format!("fmt-nondeterministic:{}", op.name), format!("no fault fired (k = {k}) yet output differs: {w:?} vs {text:?}"));
                    }
                }
            }
        }
    }
}

pub fn run(seed: u64, samples: usize, workers: usize) -> Summary {
    let mut sum = Summary::default();
    for k in ["HOSTILE_VALUE", "SINK_ERR@k"] {
        sum.faults_fired.insert(k.into(), 0);
        sum.faults_effective.insert(k.into(), 0);
    }
    let mut distinct_total = 0u64;
    let mut ops_with_float_args = 0u64;
    util::par_runs(
        OPS.len(),
        workers,
        |oi| sweep_op(oi, seed, samples),
        |oi, r| {
            sum.evaluations += r.evals;
            distinct_total += r.distinct + r.sink_effective;
            *sum.faults_fired.get_mut("HOSTILE_VALUE").unwrap() += r.lattice_hits;
            *sum.faults_effective.get_mut("HOSTILE_VALUE").unwrap() += r.lattice_hits;
            *sum.faults_fired.get_mut("SINK_ERR@k").unwrap() += r.sink_cases;
            *sum.faults_effective.get_mut("SINK_ERR@k").unwrap() += r.sink_effective;
            if r.lattice_hits > 0 {
                ops_with_float_args += 1;
            }
            if let Some(s) = r.sample {
                if sum.samples.len() < 6 && oi % (OPS.len() / 6 + 1) == 0 {
                    sum.samples.push(s);
                }
            }
            if let Some(v) = r.viol {
                sum.violations.push(v);
            }
        },
    );
    // `distinct` is a set of strings in Summary; here the count is large, so it is carried as a number
    sum.extra.insert("distinct_inputs_executed".into(), json!(distinct_total));
    sum.extra.insert("ops".into(), json!(OPS.len()));
    sum.extra.insert("ops_with_float_arguments".into(), json!(ops_with_float_args));
    sum.extra.insert("samples_per_op".into(), json!(samples));
    sum.extra.insert("documented_integer_arithmetic_panics_observed".into(), json!(INT_ARITH_PANICS.load(std::sync::atomic::Ordering::Relaxed)));
    sum
}

pub fn replay(j: &J) -> Option<(String, String)> {
    let name = j["op"].as_str().unwrap();
    let Some(oi) = crate::ops::find(name) else {
        eprintln!("glamsim: replay names op {name:?} which the current tree does not have");
        std::process::exit(2)
    };
    let op = &OPS[oi];
    let args: Vec<Val> = j["args"].as_array().unwrap().iter().map(Val::from_json).collect();
    let class = j["violation_class"].as_str().unwrap_or("");
    if op.fname == "fmt_sink" && !class.starts_with("panic:") {
        // re-run the sink protocol for this op; report whatever it finds
        let mut res = OpResult { evals: 0, distinct: 0, lattice_hits: 0, viol: None, sample: None, sink_cases: 0, sink_effective: 0 };
        sink_op(oi, j["seed"].as_u64().unwrap(), &mut res);
        return res.viol.map(|v| (v.class, v.detail));
    }
    match call(op, &args) {
        Err(p) => {
            let detail = if op.fname == "fmt_sink" {
                j["observed"].as_str().unwrap_or("").to_string()
            } else {
                format!("panicked: {} at {} with {}", p.msg, p.loc, render_args(op, &args))
            };
            Some((format!("panic:{}", op.name), detail))
        }
        Ok(_) => None,
    }
}

/// One or two plain calls of every op of a shard: the "every public function executes at least once under the
/// machine-level monitor" pass (Miri reports uninitialised / out-of-bounds / misaligned accesses even when the
/// result is right and nothing crashes natively). The op is announced first, so a monitor abort names it.
pub fn run_once(seed: u64, shard: usize, of: usize, only: Option<&str>, calls: usize, related: usize, swizzles: usize) -> Summary {
    let mut sum = Summary::default();
    sum.faults_fired.insert("HOSTILE_VALUE".into(), 0);
    sum.faults_effective.insert("HOSTILE_VALUE".into(), 0);
    for (oi, op) in OPS.iter().enumerate() {
        if let Some(n) = only {
            if op.name != n {
                continue;
            }
        } else if oi % of.max(1) != shard {
            continue;
        }
        if op.fname == "fmt_sink" || op.fname == "fmt_spec" {
            continue; // the spec / sink grids are covered natively; the plain `fmt` ops below run the same impls once
        }
        // swizzles are half of the integer table: `swizzles` = 0 all ops, 1 everything but swizzles, 2 swizzles only
        let is_swizzle = (2..=4).contains(&op.fname.len()) && op.fname.chars().all(|c| "xyzw".contains(c));
        if (swizzles == 1 && is_swizzle) || (swizzles == 2 && !is_swizzle) {
            continue;
        }
        // hand-rolled JSON string escape: serde_json is two orders of magnitude slower under the interpreter
        // (and no per-character allocation either: an allocation costs the interpreter thousands of steps)
        let mut line = String::with_capacity(op.name.len() + 32);
        line.push_str("{\"kind\":\"op\",\"fn\":\"");
        for c in op.name.chars() {
            if c == '"' || c == '\\' {
                line.push('\\');
            }
            line.push(c);
        }
        line.push_str("\"}");
        crate::arena::announce(&line);
        let nstruct = structured_total(op);
        // `calls` of the four argument sets; which ones rotates with the op index so that a reduced budget still spreads
        let all: Vec<usize> = (0..if nstruct > 0 { 4 } else { 2 }).collect();
        let mut chosen: Vec<usize> = if calls >= all.len() { all } else { (0..calls).map(|j| all[(oi + seed as usize + j * 3) % all.len()]).collect() };
        // functions of two or more same-typed vectors / quaternions: the *relation* between the operands selects the
        // branch (parallel, anti-parallel), and which lane is the smallest selects the sub-branch; memory errors there
        // are visible to the interpreter only. `related` of the 4n (rotation x sign x {equal, opposite}) sets per op.
        if let Some((t, bi)) = related_base(op) {
            if op.args.iter().enumerate().any(|(i, a)| i != bi && *a == Ty::G(t)) {
                let n = t.n();
                let sets: Vec<usize> = (0..4 * n).collect();
                let take = related.min(sets.len());
                // opposite pairs first (the rarer branch), rotations spread by op index and seed
                for j in 0..take {
                    let rot = (oi + seed as usize + j) % (2 * n);
                    let rel = if j < 2 * n { 1 } else { 0 };
                    chosen.push(100 + rel * 2 * n + rot);
                }
            }
        }
        for k in chosen {
            let mut rng = Rng::new(seed, "c18p-once", (oi as u64) << 8 | k as u64);
            let args: Vec<Val> = match k {
                k if k >= 100 => {
                    let (t, _) = related_base(op).unwrap();
                    let n = t.n();
                    let (rel, rot) = ((k - 100) / (2 * n), (k - 100) % (2 * n));
                    related_args(op, 16 * n + rot, rel, 1 + rot % 3, &mut rng)
                }
                0 => (0..op.args.len()).map(|i| gen_arg(op, i, &mut rng, Cls::Ordinary)).collect(),
                1 => (0..op.args.len()).map(|i| gen_arg(op, i, &mut rng, Cls::Mix)).collect(),
                // degenerate branches: uniformly zero arguments, and one structured combination drawn by the seed
                2 => (0..op.args.len()).map(|i| gen_arg(op, i, &mut rng, Cls::Lattice(0))).collect(),
                _ => structured_args(op, rng.below(nstruct.min(4096)), &mut rng),
            };
            sum.evaluations += 1;
            if let Err(p) = call(op, &args) {
                let class = format!("panic:{}", op.name);
                let detail = format!("panicked: {} at {} with {}", p.msg, p.loc, render_args(op, &args));
                sum.violations.push(Violation { class: class.clone(), detail: detail.clone(), replay: replay_json(op, &args, seed, &class, &detail) });
            }
        }
        sum.distinct.insert(op.name.to_string());
    }
    sum.extra.insert("ops_in_shard".into(), json!(sum.distinct.len()));
    sum.distinct.insert("shard".into());
    sum
}
