//! Failing `fmt::Write` sink: the fmt seam shared by C17 / C18 / C19.

use std::fmt;

/// `fmt::Write` that fails at its k-th `write_str` and records what was written before.
pub struct FailingSink {
    pub written: String,
    pub calls: usize,
    pub fail_at: Option<usize>,
    pub calls_after_failure: usize,
    failed: bool,
}

impl FailingSink {
    pub fn new(fail_at: Option<usize>) -> Self {
        FailingSink { written: String::new(), calls: 0, fail_at, calls_after_failure: 0, failed: false }
    }
}

impl fmt::Write for FailingSink {
    fn write_str(&mut self, s: &str) -> fmt::Result {
        if self.failed {
            self.calls_after_failure += 1;
            return Err(fmt::Error);
        }
        let k = self.calls;
        self.calls += 1;
        if self.fail_at == Some(k) {
            self.failed = true;
            return Err(fmt::Error);
        }
        self.written.push_str(s);
        Ok(())
    }
}
