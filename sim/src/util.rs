//! Shared plumbing: panic capture (panics are the simulator's "crash points"), an
//! order-preserving parallel runner (output independent of worker count), streaming digest,
//! tiny CLI parser.

use std::cell::RefCell;
use std::collections::BTreeMap;
use std::panic::{self, AssertUnwindSafe};
use std::sync::atomic::{AtomicUsize, Ordering};
use std::sync::mpsc;

thread_local! {
    static PANIC_SLOT: RefCell<Option<(String, String)>> = const { RefCell::new(None) };
    static QUIET: RefCell<bool> = const { RefCell::new(false) };
}

/// Install a panic hook that records (message, location) in a thread-local slot instead of
/// printing. Logging must not perturb anything: no PRNG draw, no clock.
pub fn install_panic_hook() {
    panic::set_hook(Box::new(|info| {
        let msg = if let Some(s) = info.payload().downcast_ref::<&str>() {
            (*s).to_string()
        } else if let Some(s) = info.payload().downcast_ref::<String>() {
            s.clone()
        } else {
            "<non-string panic payload>".to_string()
        };
        let loc = info
            .location()
            .map(|l| format!("{}:{}", l.file(), l.line()))
            .unwrap_or_default();
        let quiet = QUIET.with(|q| *q.borrow());
        if !quiet {
            eprintln!("glamsim: uncaught panic: {msg} at {loc}");
        }
        PANIC_SLOT.with(|s| *s.borrow_mut() = Some((msg, loc)));
    }));
}

#[derive(Clone, Debug, PartialEq, Eq)]
pub struct Panic {
    pub msg: String,
    pub loc: String,
}

/// Run `f`; a panic becomes `Err(Panic)`. The crash point is observable: whatever `f` mutated
/// through captured `&mut` state stays as the panic left it.
pub fn catch<R>(f: impl FnOnce() -> R) -> Result<R, Panic> {
    QUIET.with(|q| *q.borrow_mut() = true);
    PANIC_SLOT.with(|s| *s.borrow_mut() = None);
    let r = panic::catch_unwind(AssertUnwindSafe(f));
    QUIET.with(|q| *q.borrow_mut() = false);
    match r {
        Ok(v) => Ok(v),
        Err(_) => {
            let (msg, loc) = PANIC_SLOT
                .with(|s| s.borrow_mut().take())
                .unwrap_or_else(|| ("<unknown>".into(), String::new()));
            Err(Panic { msg, loc })
        }
    }
}

/// Streaming 64-bit digest (FNV-1a over 64-bit words with an avalanche at the end).
#[derive(Clone, Copy)]
pub struct Digest(pub u64);

impl Default for Digest {
    fn default() -> Self {
        Digest(0xcbf2_9ce4_8422_2325)
    }
}

impl Digest {
    #[inline]
    pub fn push(&mut self, w: u64) {
        let mut h = self.0;
        h ^= w;
        h = h.wrapping_mul(0x100_0000_01b3);
        h ^= h >> 29;
        self.0 = h;
    }
    pub fn push_str(&mut self, s: &str) {
        self.push(s.len() as u64);
        for b in s.as_bytes().chunks(8) {
            let mut w = [0u8; 8];
            w[..b.len()].copy_from_slice(b);
            self.push(u64::from_le_bytes(w));
        }
    }
    pub fn push_bytes(&mut self, s: &[u8]) {
        self.push(s.len() as u64);
        for b in s.chunks(8) {
            let mut w = [0u8; 8];
            w[..b.len()].copy_from_slice(b);
            self.push(u64::from_le_bytes(w));
        }
    }
    pub fn finish(&self) -> u64 {
        let mut z = self.0;
        z = (z ^ (z >> 30)).wrapping_mul(0xBF58_476D_1CE4_E5B9);
        z = (z ^ (z >> 27)).wrapping_mul(0x94D0_49BB_1331_11EB);
        z ^ (z >> 31)
    }
}

/// Run `job(i)` for i in 0..n on `workers` threads; hand results to `sink` strictly in index
/// order, so everything derived from them is independent of the worker count and of OS
/// scheduling. Each job is single-threaded and owns all its state.
pub fn par_runs<R: Send>(
    n: usize,
    workers: usize,
    job: impl Fn(usize) -> R + Sync,
    mut sink: impl FnMut(usize, R),
) {
    let workers = workers.max(1);
    if workers == 1 || n < 2 {
        for i in 0..n {
            let r = job(i);
            sink(i, r);
        }
        return;
    }
    const BLOCK: usize = 64;
    let nblocks = n.div_ceil(BLOCK);
    let next = AtomicUsize::new(0);
    let (tx, rx) = mpsc::sync_channel::<(usize, Vec<R>)>(workers * 4);
    std::thread::scope(|s| {
        for _ in 0..workers {
            let tx = tx.clone();
            let next = &next;
            let job = &job;
            s.spawn(move || loop {
                let b = next.fetch_add(1, Ordering::Relaxed);
                if b >= nblocks {
                    break;
                }
                let lo = b * BLOCK;
                let hi = (lo + BLOCK).min(n);
                let v: Vec<R> = (lo..hi).map(job).collect();
                if tx.send((b, v)).is_err() {
                    break;
                }
            });
        }
        drop(tx);
        let mut pending: BTreeMap<usize, Vec<R>> = BTreeMap::new();
        let mut want = 0usize;
        for (b, v) in rx {
            pending.insert(b, v);
            while let Some(v) = pending.remove(&want) {
                let lo = want * BLOCK;
                for (k, r) in v.into_iter().enumerate() {
                    sink(lo + k, r);
                }
                want += 1;
            }
        }
    });
}

/// `--key value` / `--flag` command line.
pub struct Args {
    pub cmd: String,
    pub kv: BTreeMap<String, String>,
}

impl Args {
    pub fn parse() -> Args {
        let mut it = std::env::args().skip(1);
        let cmd = it.next().unwrap_or_default();
        let mut kv = BTreeMap::new();
        let rest: Vec<String> = it.collect();
        let mut i = 0;
        while i < rest.len() {
            let k = rest[i].trim_start_matches("--").to_string();
            if i + 1 < rest.len() && !rest[i + 1].starts_with("--") {
                kv.insert(k, rest[i + 1].clone());
                i += 2;
            } else {
                kv.insert(k, "1".into());
                i += 1;
            }
        }
        Args { cmd, kv }
    }
    pub fn u64(&self, k: &str, d: u64) -> u64 {
        self.kv.get(k).map(|v| v.parse().expect("bad integer argument")).unwrap_or(d)
    }
    pub fn usize(&self, k: &str, d: usize) -> usize {
        self.u64(k, d as u64) as usize
    }
    pub fn str(&self, k: &str) -> Option<&str> {
        self.kv.get(k).map(|s| s.as_str())
    }
    pub fn flag(&self, k: &str) -> bool {
        self.kv.contains_key(k)
    }
}

pub fn hex32(x: u32) -> String {
    format!("0x{x:08x}")
}
pub fn hex64(x: u64) -> String {
    format!("0x{x:016x}")
}
pub fn parse_hex(s: &str) -> u64 {
    let t = s.trim_start_matches("0x");
    u64::from_str_radix(t, 16).expect("bad hex")
}

pub const CONFIG_TAG: &str = {
    if cfg!(feature = "scalar-math") {
        "scalar"
    } else if cfg!(feature = "core-simd") {
        "coresimd"
    } else {
        "sse2"
    }
};

pub fn profile_tag() -> &'static str {
    if cfg!(debug_assertions) {
        "dbg"
    } else {
        "rel"
    }
}
