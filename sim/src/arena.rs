//! Simulated caller memory. Every slice handed to glam in the memory cases is carved out of
//! this arena: one data page between two PROT_NONE guard pages, everything outside the slice
//! filled with position-dependent canary bytes. The plan decides length, misalignment and
//! placement; an access outside the slice either trips a guard page (SIGSEGV, caught by a
//! handler that names the announced case) or is seen as a damaged canary.

#![allow(dead_code)]

use std::sync::atomic::{AtomicUsize, Ordering};

pub const PAGE: usize = 4096;

#[derive(Clone, Copy, Debug, PartialEq, Eq, Hash)]
pub enum Place {
    /// slice ends exactly where the trailing guard page begins
    Tail,
    /// slice starts exactly where the leading guard page ends
    Head,
    /// slice in the middle of the page, bracketed by canaries, `k` elements past a 16-byte boundary
    Interior,
}

pub const PLACES: [Place; 3] = [Place::Tail, Place::Head, Place::Interior];

pub struct Arena {
    base: *mut u8,
}

#[inline]
fn canary(pos: usize) -> u8 {
    (pos.wrapping_mul(31).wrapping_add(0xC5)) as u8 | 0x80
}

impl Arena {
    pub fn new() -> Arena {
        unsafe {
            let p = libc::mmap(
                core::ptr::null_mut(),
                3 * PAGE,
                libc::PROT_READ | libc::PROT_WRITE,
                libc::MAP_PRIVATE | libc::MAP_ANONYMOUS,
                -1,
                0,
            );
            if p == libc::MAP_FAILED {
                eprintln!("glamsim: HARNESS ERROR: mmap failed");
                std::process::exit(2);
            }
            let base = p as *mut u8;
            if libc::mprotect(base as *mut _, PAGE, libc::PROT_NONE) != 0
                || libc::mprotect(base.add(2 * PAGE) as *mut _, PAGE, libc::PROT_NONE) != 0
            {
                eprintln!("glamsim: HARNESS ERROR: mprotect failed");
                std::process::exit(2);
            }
            let a = Arena { base };
            a
        }
    }
    fn data_ptr(&self) -> *mut u8 {
        unsafe { self.base.add(PAGE) }
    }
    pub fn fill_canaries(&mut self) {
        let d = self.data_ptr();
        for i in 0..PAGE {
            unsafe { *d.add(i) = canary(i) };
        }
    }
    /// byte offset of a slice of `n` elements of size `es` for a placement
    pub fn offset(place: Place, n: usize, es: usize, k: usize) -> usize {
        match place {
            Place::Tail => PAGE - n * es,
            Place::Head => 0,
            Place::Interior => 1024 + k * es,
        }
    }
    /// raw pointer to the slice start
    pub fn ptr(&self, off: usize) -> *mut u8 {
        unsafe { self.data_ptr().add(off) }
    }
    pub fn write_bytes(&mut self, off: usize, bytes: &[u8]) {
        assert!(off + bytes.len() <= PAGE);
        unsafe { core::ptr::copy_nonoverlapping(bytes.as_ptr(), self.data_ptr().add(off), bytes.len()) }
    }
    pub fn read_bytes(&self, off: usize, len: usize) -> Vec<u8> {
        assert!(off + len <= PAGE);
        let mut v = vec![0u8; len];
        unsafe { core::ptr::copy_nonoverlapping(self.data_ptr().add(off), v.as_mut_ptr(), len) };
        v
    }
    /// first damaged canary byte outside [off, off+len), if any
    pub fn damaged_canary(&self, off: usize, len: usize) -> Option<usize> {
        let d = self.data_ptr();
        for i in 0..PAGE {
            if i >= off && i < off + len {
                continue;
            }
            if unsafe { *d.add(i) } != canary(i) {
                return Some(i);
            }
        }
        None
    }
    /// overwrite all canaries with a different pattern (twin run: "what lies behind the slice")
    pub fn scramble_outside(&mut self, off: usize, len: usize) {
        let d = self.data_ptr();
        for i in 0..PAGE {
            if i >= off && i < off + len {
                continue;
            }
            unsafe { *d.add(i) = !canary(i) };
        }
    }
}

impl Drop for Arena {
    fn drop(&mut self) {
        unsafe {
            libc::munmap(self.base as *mut _, 3 * PAGE);
        }
    }
}

// ---------------------------------------------------------------------------------------------
// crash monitor: the case is announced (stored) before it runs; a SIGSEGV / SIGBUS handler prints
// it with async-signal-safe calls only and exits with a distinctive status.

static mut CASE_BUF: [u8; 1024] = [0; 1024];
static CASE_LEN: AtomicUsize = AtomicUsize::new(0);

pub const CRASH_EXIT: i32 = 77;
static ECHO: AtomicUsize = AtomicUsize::new(0);

pub fn set_echo(on: bool) {
    ECHO.store(on as usize, Ordering::Relaxed);
}

pub fn announce(case: &str) {
    if ECHO.load(Ordering::Relaxed) != 0 {
        // external monitors (Miri, ASan) abort the process: the last echoed case is the culprit
        // one unformatted write (the formatting machinery is slow under the interpreter)
        use std::io::Write;
        let mut line = Vec::with_capacity(case.len() + 16);
        line.extend_from_slice(b"GLAMSIM-CASE ");
        line.extend_from_slice(case.as_bytes());
        line.push(b'\n');
        let _ = std::io::stderr().write_all(&line);
    }
    let b = case.as_bytes();
    let n = b.len().min(1024);
    unsafe {
        let p = core::ptr::addr_of_mut!(CASE_BUF) as *mut u8;
        core::ptr::copy_nonoverlapping(b.as_ptr(), p, n);
    }
    CASE_LEN.store(n, Ordering::SeqCst);
}

extern "C" fn on_fault(sig: libc::c_int) {
    unsafe {
        let head = b"\nGLAMSIM-CRASH signal=";
        libc::write(2, head.as_ptr() as *const _, head.len());
        let d = [b'0' + (sig / 10) as u8, b'0' + (sig % 10) as u8];
        libc::write(2, d.as_ptr() as *const _, 2);
        let mid = b" case=";
        libc::write(2, mid.as_ptr() as *const _, mid.len());
        let n = CASE_LEN.load(Ordering::SeqCst);
        let p = core::ptr::addr_of!(CASE_BUF) as *const u8;
        libc::write(2, p as *const _, n);
        libc::write(2, b"\n".as_ptr() as *const _, 1);
        libc::_exit(CRASH_EXIT);
    }
}

pub fn install_crash_monitor() {
    if cfg!(miri) {
        return;
    }
    unsafe {
        let mut sa: libc::sigaction = core::mem::zeroed();
        sa.sa_sigaction = on_fault as *const () as usize;
        libc::sigemptyset(&mut sa.sa_mask);
        libc::sigaction(libc::SIGSEGV, &sa, core::ptr::null_mut());
        libc::sigaction(libc::SIGBUS, &sa, core::ptr::null_mut());
    }
}
