//! Result aggregation shared by all sub-commands. Everything here is merged in run-index
//! order, so the emitted JSON is a pure function of (seed, parameters, code).

use serde_json::{json, Value as J};
use std::collections::{BTreeMap, BTreeSet};

#[derive(Clone, Debug)]
pub struct Violation {
    /// stable class: "<kind>:<type or op>:<what>" — the known-findings key and the thing the
    /// shrinker preserves
    pub class: String,
    /// first diverging observation, human readable
    pub detail: String,
    /// the (minimised) materialised case; replaying it must reproduce `class` and `detail`
    pub replay: J,
}

#[derive(Default)]
pub struct Summary {
    pub evaluations: u64,
    /// distinct non-trivial states reached, by the check's stated measure
    pub distinct: BTreeSet<String>,
    /// per fault kind: times it actually fired
    pub faults_fired: BTreeMap<String, u64>,
    /// per fault kind: times it fired *and* something downstream could observe it
    pub faults_effective: BTreeMap<String, u64>,
    pub probes: BTreeMap<String, u64>,
    pub digests: BTreeMap<String, crate::util::Digest>,
    pub samples: Vec<J>,
    pub violations: Vec<Violation>,
    pub notes: Vec<String>,
    pub extra: BTreeMap<String, J>,
}

impl Summary {
    pub fn fired(&mut self, k: &str) {
        *self.faults_fired.entry(k.to_string()).or_insert(0) += 1;
    }
    pub fn effective(&mut self, k: &str) {
        *self.faults_effective.entry(k.to_string()).or_insert(0) += 1;
    }
    pub fn probe(&mut self, k: &str) {
        *self.probes.entry(k.to_string()).or_insert(0) += 1;
    }
    pub fn probe_init(&mut self, k: &str) {
        self.probes.entry(k.to_string()).or_insert(0);
    }
    pub fn digest(&mut self, k: &str) -> &mut crate::util::Digest {
        self.digests.entry(k.to_string()).or_default()
    }
    pub fn to_json(&self, property: &str, seed: u64) -> J {
        // one violation per class is enough for the driver; keep the first (lowest run index)
        let mut seen = BTreeSet::new();
        let mut viols = Vec::new();
        for v in &self.violations {
            if seen.insert(v.class.clone()) {
                viols.push(json!({"class": v.class, "detail": v.detail, "replay": v.replay}));
            }
        }
        let zero_probes: Vec<&String> = self.probes.iter().filter(|(_, v)| **v == 0).map(|(k, _)| k).collect();
        json!({
            "property": property,
            "config": crate::util::CONFIG_TAG,
            "profile": crate::util::profile_tag(),
            "seed": seed,
            "evaluations": self.evaluations,
            "distinct_nontrivial": self.distinct.len(),
            "faults_fired": self.faults_fired,
            "faults_effective": self.faults_effective,
            "probes": self.probes,
            "probes_stuck_at_zero": zero_probes,
            "digests": self.digests.iter().map(|(k, d)| (k.clone(), J::from(format!("{:016x}", d.finish())))).collect::<serde_json::Map<_, _>>(),
            "samples": self.samples,
            "violations_total": self.violations.len(),
            "violations": viols,
            "notes": self.notes,
            "extra": self.extra,
        })
    }
}

pub fn write_out(path: Option<&str>, j: &J) {
    let s = serde_json::to_string_pretty(j).unwrap();
    match path {
        Some(p) => std::fs::write(p, s).unwrap_or_else(|e| {
            eprintln!("glamsim: cannot write {p}: {e}");
            std::process::exit(2)
        }),
        None => println!("{s}"),
    }
}
