//! C19 — serialisation and interop round trips, decided by driving glam's serde / bytemuck /
//! rkyv / mint code against simulated carriers with an enumerated fault plan.
//!
//! A *case* is (type, plan, value). The plan space is enumerated completely; values are seeded
//! (masks: exhaustively all 2^N). The oracle is a flat reference codec built from the plain
//! public accessors (`to_array`, `to_cols_array`).

#![cfg(feature = "interop")]

use crate::carrier::*;
use crate::glam_types;
use crate::report::{Summary, Violation};
use crate::rng::Rng;
use crate::util::{self, Digest};
use crate::val::*;
use glam::*;
use serde::de::DeserializeOwned;
use serde::Serialize;
use serde_json::{json, Value as J};

#[derive(Clone, Debug, PartialEq)]
pub enum Plan {
    SerClean { hr: bool },
    SerFail { k: usize },
    DeClean { hint: usize },
    DeEof { j: usize, hint_lies: bool },
    DeErr { k: usize },
    DeKind { k: usize, wrong: usize },
    DeSurplus { extra: usize, check_trailing: bool },
    DeHostile { entry: usize },
    Json,
    JsonLen { len: usize },
    JsonShape { which: usize },
    PodProbe,
    PodImage,
    PodZeroed,
    PodBitflip { bit: usize },
    RkyvImage,
    RkyvBitflip { bit: usize },
    RkyvTrunc { n: usize },
    RkyvNested,
    Mint,
}

impl Plan {
    /// plans in which a well-formed value goes out and comes back (or out only): where the *value* is the input dimension
    fn is_round_trip(&self) -> bool {
        matches!(self, Plan::SerClean { .. } | Plan::DeClean { .. } | Plan::Json | Plan::PodImage | Plan::RkyvImage | Plan::RkyvNested | Plan::Mint)
    }
    fn to_json(&self) -> J {
        let (k, a, b) = match self {
            Plan::SerClean { hr } => ("SerClean", *hr as usize, 0),
            Plan::SerFail { k } => ("SerFail", *k, 0),
            Plan::DeClean { hint } => ("DeClean", *hint, 0),
            Plan::DeEof { j, hint_lies } => ("DeEof", *j, *hint_lies as usize),
            Plan::DeErr { k } => ("DeErr", *k, 0),
            Plan::DeKind { k, wrong } => ("DeKind", *k, *wrong),
            Plan::DeSurplus { extra, check_trailing } => ("DeSurplus", *extra, *check_trailing as usize),
            Plan::DeHostile { entry } => ("DeHostile", *entry, 0),
            Plan::Json => ("Json", 0, 0),
            Plan::JsonLen { len } => ("JsonLen", *len, 0),
            Plan::JsonShape { which } => ("JsonShape", *which, 0),
            Plan::PodProbe => ("PodProbe", 0, 0),
            Plan::PodImage => ("PodImage", 0, 0),
            Plan::PodZeroed => ("PodZeroed", 0, 0),
            Plan::PodBitflip { bit } => ("PodBitflip", *bit, 0),
            Plan::RkyvImage => ("RkyvImage", 0, 0),
            Plan::RkyvBitflip { bit } => ("RkyvBitflip", *bit, 0),
            Plan::RkyvTrunc { n } => ("RkyvTrunc", *n, 0),
            Plan::RkyvNested => ("RkyvNested", 0, 0),
            Plan::Mint => ("Mint", 0, 0),
        };
        json!({"kind": k, "a": a, "b": b})
    }
    fn from_json(j: &J) -> Plan {
        let a = j["a"].as_u64().unwrap() as usize;
        let b = j["b"].as_u64().unwrap() as usize;
        match j["kind"].as_str().unwrap() {
            "SerClean" => Plan::SerClean { hr: a != 0 },
            "SerFail" => Plan::SerFail { k: a },
            "DeClean" => Plan::DeClean { hint: a },
            "DeEof" => Plan::DeEof { j: a, hint_lies: b != 0 },
            "DeErr" => Plan::DeErr { k: a },
            "DeKind" => Plan::DeKind { k: a, wrong: b },
            "DeSurplus" => Plan::DeSurplus { extra: a, check_trailing: b != 0 },
            "DeHostile" => Plan::DeHostile { entry: a },
            "Json" => Plan::Json,
            "JsonLen" => Plan::JsonLen { len: a },
            "JsonShape" => Plan::JsonShape { which: a },
            "PodProbe" => Plan::PodProbe,
            "PodImage" => Plan::PodImage,
            "PodZeroed" => Plan::PodZeroed,
            "PodBitflip" => Plan::PodBitflip { bit: a },
            "RkyvImage" => Plan::RkyvImage,
            "RkyvBitflip" => Plan::RkyvBitflip { bit: a },
            "RkyvTrunc" => Plan::RkyvTrunc { n: a },
            "RkyvNested" => Plan::RkyvNested,
            "Mint" => Plan::Mint,
            k => panic!("replay: unknown plan {k}"),
        }
    }
    /// fault kind label for the reach counters (None: fault-free configuration)
    fn fault(&self) -> Option<&'static str> {
        Some(match self {
            Plan::SerFail { .. } => "SER_ERR@k",
            Plan::DeEof { .. } => "DE_EOF@j",
            Plan::DeErr { .. } => "DE_ERR@k",
            Plan::DeKind { .. } => "DE_KIND@k",
            Plan::DeSurplus { .. } => "DE_SURPLUS",
            Plan::DeHostile { .. } => "DE_HOSTILE_ENTRY",
            Plan::JsonLen { .. } => "JSON_LEN",
            Plan::JsonShape { .. } => "JSON_SHAPE",
            Plan::PodBitflip { .. } | Plan::RkyvBitflip { .. } => "BITFLIP@b",
            Plan::RkyvTrunc { .. } => "TRUNCATE@n",
            _ => return None,
        })
    }
}

#[derive(Default)]
pub struct CaseOut {
    pub viol: Option<(String, String)>,
    pub log: Digest,
    /// the injected fault actually reached glam code (e.g. the failing call was made)
    pub fault_reached: bool,
    pub info: Vec<&'static str>,
    /// values with relations between elements (see `shape_values`) run in addition to the case's own value
    pub shape_values_run: usize,
}

impl CaseOut {
    fn fail(&mut self, class: impl Into<String>, detail: impl Into<String>) {
        if self.viol.is_none() {
            self.viol = Some((class.into(), detail.into()));
        }
    }
}

type CaseFn = fn(&Plan, &Val) -> CaseOut;

pub struct Entry19 {
    pub name: &'static str,
    pub ty: Ty,
    pub n: usize,
    pub size: usize,
    pub serde: Option<CaseFn>,
    pub bytes: Option<CaseFn>,
    pub rkyv: Option<CaseFn>,
    pub mint: Option<CaseFn>,
}

// ---------------------------------------------------------------------------------------------
// reference model

fn model_bits<T: GlamTy>(x: &T) -> Vec<u64> {
    x.to_elems().into_iter().map(|e| e.to_bits64()).collect()
}
fn model_toks<T: GlamTy>(x: &T) -> Vec<Tok> {
    model_bits(x).into_iter().map(|b| Tok::from_elem(T::E::KIND, b)).collect()
}
fn render_bits(e: Elem, bits: &[u64]) -> String {
    let v: Vec<String> = bits.iter().map(|b| Tok::from_elem(e, *b).render()).collect();
    format!("[{}]", v.join(", "))
}
fn wrong_kind_tok(e: Elem, which: usize) -> Tok {
    // kinds that no primitive visitor of the expected element type accepts
    if e == Elem::Bool {
        [Tok::I64(1), Tok::Str("true".into()), Tok::Unit, Tok::F32(0x3f80_0000)][which % 4].clone()
    } else {
        [Tok::Bool(true), Tok::Str("1".into()), Tok::Unit][which % 3].clone()
    }
}
const N_WRONG_NUM: usize = 3;
const N_WRONG_BOOL: usize = 4;

// ---------------------------------------------------------------------------------------------
// serde through the token carrier and through serde_json

fn ser_run<T: Serialize>(x: &T, fail_at: Option<usize>, hr: bool) -> (Result<(), SimErr>, Rec) {
    let mut rec = Rec { fail_at, human_readable: hr, ..Default::default() };
    let r = x.serialize(TopSer(&mut rec));
    (r, rec)
}

fn de_run_plain<T: DeserializeOwned>(script: &Script) -> (Result<T, SimErr>, DeState) {
    let mut st = DeState::default();
    let r = T::deserialize(TopDe { script, state: &mut st });
    (r, st)
}

/// Both entry points serde offers: `Deserialize::deserialize` and the (overridable, provided) `deserialize_in_place`,
/// the latter into a place that already holds a *different* value, so lanes that are not overwritten show. They must agree:
/// the same verdict, and on success the same value. A disagreement is reported through the `Err` / value the caller judges.
fn de_run<T: DeserializeOwned + GlamTy>(script: &Script) -> (Result<T, SimErr>, DeState) {
    let (r, st) = de_run_plain::<T>(script);
    // sentinel: elements no plan produces
    let sent: Vec<T::E> = (0..T::N).map(|i| T::E::from_bits64(match T::E::KIND { Elem::Bool => 1, Elem::F32 => 0x4F00_0000 + i as u64, Elem::F64 => 0x41E0_0000_0000_0000 + i as u64, _ => 113 + i as u64 })).collect();
    let mut place = T::from_elems(&sent);
    let mut st2 = DeState::default();
    let r2 = serde::Deserialize::deserialize_in_place(TopDe { script, state: &mut st2 }, &mut place);
    match (&r, r2) {
        (Ok(v), Ok(())) => {
            if v.to_elems().iter().map(|e| e.to_bits64()).collect::<Vec<_>>() != place.to_elems().iter().map(|e| e.to_bits64()).collect::<Vec<_>>() {
                // make the in-place result the one that is judged: it differs from what `deserialize` says
                return (Ok(place), st2);
            }
            (r, st)
        }
        (Err(_), Err(_)) => (r, st),
        // in-place accepted what `deserialize` rejects: judge the in-place value (the plan expects a rejection)
        (Err(_), Ok(())) => (Ok(place), st2),
        // in-place rejected what `deserialize` accepts
        (Ok(_), Err(e)) => (Err(SimErr::Custom(format!("deserialize accepted the sequence but deserialize_in_place rejected it: {e:?}"))), st2),
    }
}

fn serde_case<T>(plan: &Plan, v: &Val) -> CaseOut
where
    T: GlamTy + V + Serialize + DeserializeOwned,
    T::E: Serialize + DeserializeOwned,
{
    let mut out = CaseOut::default();
    let x = T::from_val(v);
    let n = T::N;
    let bits = model_bits(&x);
    let toks = model_toks(&x);
    let name = T::NAME;
    let honest = |items: Vec<Item>, hint: Option<usize>, check_trailing: bool| Script {
        entry: Entry::Seq,
        items,
        size_hint: hint,
        human_readable: false,
        check_trailing,
    };
    match plan {
        Plan::SerClean { hr } => {
            let (r, rec) = ser_run(&x, None, *hr);
            if let Err(e) = &r {
                out.fail(format!("ser-error:{name}"), format!("fault-free carrier, serialize returned {e:?}"));
            }
            let mut expect = vec![];
            for t in &toks {
                expect.push(SerEv::Field(t.clone()));
            }
            expect.push(SerEv::End);
            match rec.events.first() {
                Some(SerEv::TupleStruct { len, .. }) => {
                    if *len != n {
                        out.fail(format!("ser-len:{name}"), format!("announced length {len}, value has {n} elements"));
                    }
                }
                other => out.fail(format!("ser-shape:{name}"), format!("first carrier call is {other:?}, expected a flat tuple struct")),
            }
            if rec.events.len() < 1 || rec.events[1..] != expect[..] {
                let got: Vec<String> = rec.events.iter().skip(1).map(|e| match e { SerEv::Field(t) => t.render(), o => format!("{o:?}") }).collect();
                out.fail(
                    format!("ser-tokens:{name}"),
                    format!("token stream [{}] differs from model {} + End", got.join(", "), render_bits(T::E::KIND, &bits)),
                );
            }
            for e in &rec.events {
                match e {
                    SerEv::TupleStruct { name, len } => {
                        out.log.push_str(name);
                        out.log.push(*len as u64)
                    }
                    SerEv::Field(t) | SerEv::Scalar(t) => t.digest(&mut out.log),
                    SerEv::End => out.log.push(0xE0D),
                    SerEv::UnitVariant { .. } => {}
                }
            }
        }
        Plan::SerFail { k } => {
            let (r, rec) = ser_run(&x, Some(*k), false);
            out.fault_reached = rec.failed;
            if !rec.failed {
                out.fail(format!("ser-skipped-call:{name}"), format!("carrier call {k} of {} was never made", n + 2));
            }
            match r {
                Err(_) => {}
                Ok(()) => out.fail(
                    format!("ser-swallowed-error:{name}"),
                    format!("carrier failed at call {k} but serialize returned Ok"),
                ),
            }
            if rec.calls_after_failure > 0 {
                out.info.push("calls-after-failure");
            }
        }
        Plan::DeClean { hint } => {
            let hr = *hint >= 4;
            let hint = match hint % 4 { 0 => None, 1 => Some(n), 2 => Some(0), _ => Some(n + 5) };
            let items = toks.iter().cloned().map(Item::Tok).collect();
            let mut script = honest(items, hint, true);
            script.human_readable = hr;
            let (r, st) = de_run::<T>(&script);
            match r {
                Ok(y) => {
                    let got = model_bits(&y);
                    if got != bits {
                        out.fail(
                            format!("de-roundtrip:{name}"),
                            format!("elements {} deserialised as {}", render_bits(T::E::KIND, &bits), render_bits(T::E::KIND, &got)),
                        );
                    }
                }
                Err(e) => out.fail(format!("de-rejects-valid:{name}"), format!("valid {n}-element sequence rejected: {e:?}")),
            }
            // the carrier is told the same struct name and length on the way in as on the way out
            let (_, rec) = ser_run(&x, None, false);
            if let Some(SerEv::TupleStruct { name: sname, len: slen }) = rec.events.first() {
                if st.name.as_deref() != Some(sname.as_str()) {
                    out.fail(
                        format!("de-name:{name}"),
                        format!("serialize names the struct {:?} but deserialize asks the carrier for {:?}", sname, st.name),
                    );
                }
                if st.len != Some(*slen) {
                    out.fail(format!("de-len:{name}"), format!("serialize announces {slen} fields, deserialize asks for {:?}", st.len));
                }
            }
            if st.consumed != n {
                out.fail(format!("de-consumed:{name}"), format!("consumed {} elements of a {n}-element sequence", st.consumed));
            }
        }
        Plan::DeEof { j, hint_lies } => {
            let items: Vec<Item> = toks.iter().take(*j).cloned().map(Item::Tok).collect();
            let hint = if *hint_lies { Some(n) } else { Some(*j) };
            let (r, st) = de_run::<T>(&honest(items, hint, true));
            out.fault_reached = st.next_calls > *j;
            match r {
                Err(SimErr::Custom(m)) => {
                    if m.starts_with(&format!("invalid length {j}")) {
                        out.info.push("invalid-length-message-exact");
                    }
                }
                Err(_) => {}
                Ok(y) => out.fail(
                    format!("de-accepts-short:{name}"),
                    format!("sequence of {j} elements (need {n}) accepted as {}", render_bits(T::E::KIND, &model_bits(&y))),
                ),
            }
        }
        Plan::DeErr { k } => {
            let mut items: Vec<Item> = toks.iter().cloned().map(Item::Tok).collect();
            items[*k] = Item::Fail;
            let (r, st) = de_run::<T>(&honest(items, Some(n), true));
            out.fault_reached = st.next_calls > *k;
            match r {
                Err(SimErr::Injected(i)) if i == *k => out.info.push("error-propagated-verbatim"),
                Err(_) => {}
                Ok(y) => out.fail(
                    format!("de-swallowed-error:{name}"),
                    format!("carrier failed at element {k} but a value was returned: {}", render_bits(T::E::KIND, &model_bits(&y))),
                ),
            }
        }
        Plan::DeKind { k, wrong } => {
            let mut items: Vec<Item> = toks.iter().cloned().map(Item::Tok).collect();
            let w = wrong_kind_tok(T::E::KIND, *wrong);
            items[*k] = Item::Tok(w.clone());
            let (r, st) = de_run::<T>(&honest(items, Some(n), true));
            out.fault_reached = st.next_calls > *k;
            if let Ok(y) = r {
                out.fail(
                    format!("de-accepts-wrong-kind:{name}"),
                    format!("element {k} was {} yet a value was returned: {}", w.render(), render_bits(T::E::KIND, &model_bits(&y))),
                );
            }
        }
        Plan::DeSurplus { extra, check_trailing } => {
            // surplus elements are *different* from the real ones, so using one is visible
            let mut items: Vec<Item> = toks.iter().cloned().map(Item::Tok).collect();
            // `extra` encodes (count, content): count = extra % 32, content = extra / 32
            let (count, content) = (*extra % 32, *extra / 32);
            let one = match T::E::KIND { Elem::F32 => 0x3f80_0000u64, Elem::F64 => 0x3ff0_0000_0000_0000, _ => 1 };
            for i in 0..count {
                let b = bits[i % n];
                let alt = match content {
                    0 => match T::E::KIND {
                        Elem::Bool => b ^ 1,
                        Elem::F32 => (b ^ 0x0040_0000) & 0xffff_ffff,
                        _ => b ^ 0x5,
                    },
                    1 => 0,                                   // zeros
                    2 => one,                                 // ones
                    _ => if i + 1 == count { one } else { 0 }, // (0, .., 0, 1): what a homogeneous row looks like
                };
                items.push(Item::Tok(Tok::from_elem(T::E::KIND, alt)));
            }
            let extra = &count;
            let (r, st) = de_run::<T>(&honest(items, Some(n + extra), *check_trailing));
            out.fault_reached = true;
            if st.consumed > n {
                out.fail(format!("de-overreads:{name}"), format!("consumed {} elements, the type has {n}", st.consumed));
            }
            match (r, *check_trailing) {
                (Ok(y), true) => out.fail(
                    format!("de-accepts-long:{name}"),
                    format!("{} elements accepted as {}", n + extra, render_bits(T::E::KIND, &model_bits(&y))),
                ),
                (Ok(y), false) => {
                    // a carrier without a trailing-data check: glam must still have used the first N, in order
                    let got = model_bits(&y);
                    if got != bits {
                        out.fail(
                            format!("de-roundtrip:{name}"),
                            format!("first {n} of {} elements {} deserialised as {}", n + extra, render_bits(T::E::KIND, &bits), render_bits(T::E::KIND, &got)),
                        );
                    }
                }
                (Err(_), _) => {}
            }
        }
        Plan::DeHostile { entry } => {
            let e = HOSTILE_ENTRIES[*entry % HOSTILE_ENTRIES.len()];
            let script = Script { entry: e, items: vec![], size_hint: None, human_readable: false, check_trailing: true };
            let (r, _) = de_run::<T>(&script);
            out.fault_reached = true;
            if let Ok(y) = r {
                out.fail(
                    format!("de-accepts-nonsequence:{name}"),
                    format!("carrier presented {e:?} instead of a sequence, got {}", render_bits(T::E::KIND, &model_bits(&y))),
                );
            }
        }
        Plan::Json => {
            let elems = x.to_elems();
            let parts: Vec<String> = elems.iter().map(|e| serde_json::to_string(e).unwrap()).collect();
            let model_text = format!("[{}]", parts.join(","));
            match serde_json::to_string(&x) {
                Ok(text) => {
                    out.log.push_str(&text);
                    if text != model_text {
                        out.fail(format!("json-text:{name}"), format!("serde_json text {text} differs from model {model_text}"));
                    }
                    let model_back: Result<Vec<T::E>, _> = serde_json::from_str(&text);
                    let back: Result<T, _> = serde_json::from_str(&text);
                    match (back, model_back) {
                        (Ok(y), Ok(m)) => {
                            let mb: Vec<u64> = m.iter().map(|e| e.to_bits64()).collect();
                            let got = model_bits(&y);
                            if got != mb {
                                out.fail(
                                    format!("json-roundtrip:{name}"),
                                    format!("text {text} parsed as {} but element-wise parse gives {}", render_bits(T::E::KIND, &got), render_bits(T::E::KIND, &mb)),
                                );
                            }
                        }
                        (Err(_), Err(_)) => {}
                        (Ok(y), Err(_)) => out.fail(
                            format!("json-accepts-invalid:{name}"),
                            format!("text {text} has unparsable elements yet gave {}", render_bits(T::E::KIND, &model_bits(&y))),
                        ),
                        (Err(e), Ok(_)) => out.fail(format!("json-rejects-valid:{name}"), format!("own output {text} rejected: {e}")),
                    }
                }
                Err(e) => out.fail(format!("json-error:{name}"), format!("serde_json::to_string failed: {e}")),
            }
        }
        Plan::JsonLen { len } => {
            let elems = x.to_elems();
            let parts: Vec<String> = (0..*len).map(|i| serde_json::to_string(&elems[i % n]).unwrap()).collect();
            let text = format!("[{}]", parts.join(","));
            out.fault_reached = true;
            let model_back: Result<Vec<T::E>, _> = serde_json::from_str(&text);
            let back: Result<T, _> = serde_json::from_str(&text);
            match (back, *len == n && model_back.is_ok()) {
                (Ok(y), false) => out.fail(
                    if *len < n { format!("de-accepts-short:{name}") } else { format!("de-accepts-long:{name}") },
                    format!("json {text} ({len} elements, need {n}) accepted as {}", render_bits(T::E::KIND, &model_bits(&y))),
                ),
                (Err(e), true) => out.fail(format!("json-rejects-valid:{name}"), format!("{text} rejected: {e}")),
                (Ok(y), true) => {
                    let mb: Vec<u64> = model_back.unwrap().iter().map(|e| e.to_bits64()).collect();
                    if model_bits(&y) != mb {
                        out.fail(format!("json-roundtrip:{name}"), format!("{text} parsed as {}", render_bits(T::E::KIND, &model_bits(&y))));
                    }
                }
                (Err(_), false) => {}
            }
        }
        Plan::JsonShape { which } => {
            let elems = x.to_elems();
            let parts: Vec<String> = elems.iter().map(|e| serde_json::to_string(e).unwrap()).collect();
            let flat = parts.join(",");
            let text = match which % 6 {
                0 => "{}".to_string(),
                1 => format!("[[{flat}]]"),
                2 => "null".to_string(),
                3 => parts[0].clone(),
                4 => format!("{{\"x\":{}}}", parts[0]),
                _ => format!("[{flat}]]"),
            };
            out.fault_reached = true;
            if let Ok(y) = serde_json::from_str::<T>(&text) {
                out.fail(
                    format!("de-accepts-nonsequence:{name}"),
                    format!("json {text} accepted as {}", render_bits(T::E::KIND, &model_bits(&y))),
                );
            }
        }
        _ => {}
    }
    out
}

fn euler_case(plan: &Plan, v: &Val) -> CaseOut {
    let mut out = CaseOut::default();
    let x = EulerRot::from_val(v);
    let idx = EULER_ALL.iter().position(|e| *e == x).unwrap();
    let dbg_name = format!("{x:?}");
    match plan {
        Plan::SerClean { hr } => {
            let (r, rec) = ser_run(&x, None, *hr);
            if r.is_err() {
                out.fail("ser-error:EulerRot", format!("{r:?}"));
            }
            match rec.events.as_slice() {
                [SerEv::UnitVariant { name, index, variant }] => {
                    out.log.push_str(name);
                    out.log.push(*index as u64);
                    out.log.push_str(variant);
                    if *variant != dbg_name {
                        out.fail("ser-tokens:EulerRot", format!("{dbg_name} serialised as variant {variant:?}"));
                    }
                    // index and name must denote the same variant on the way back in
                    let by_index = EulerRot::deserialize_with(EnumDe(VariantId::Index(*index)));
                    let by_name = EulerRot::deserialize_with(EnumDe(VariantId::Name(variant.clone())));
                    let by_bytes = EulerRot::deserialize_with(EnumDe(VariantId::Bytes(variant.as_bytes().to_vec())));
                    for (how, r) in [("index", by_index), ("name", by_name), ("bytes", by_bytes)] {
                        match r {
                            Ok(y) if y == x => {}
                            other => out.fail(
                                format!("de-roundtrip:EulerRot"),
                                format!("{dbg_name} (index {index}, variant {variant}) comes back by {how} as {other:?}"),
                            ),
                        }
                    }
                }
                other => out.fail("ser-shape:EulerRot", format!("{other:?}")),
            }
        }
        Plan::SerFail { k } if *k == 0 => {
            let (r, rec) = ser_run(&x, Some(0), false);
            out.fault_reached = rec.failed;
            if r.is_ok() {
                out.fail("ser-swallowed-error:EulerRot", "carrier failed but Ok returned");
            }
        }
        Plan::DeHostile { entry } => {
            out.fault_reached = true;
            // out-of-range index / unknown name must be rejected
            let r = match entry % 3 {
                0 => EulerRot::deserialize_with(EnumDe(VariantId::Index(24 + idx as u32))),
                1 => EulerRot::deserialize_with(EnumDe(VariantId::Name(format!("{dbg_name}_")))),
                _ => EulerRot::deserialize_with(EnumDe(VariantId::Name(dbg_name.to_lowercase()))),
            };
            if let Ok(y) = r {
                out.fail("de-accepts-wrong-kind:EulerRot", format!("bogus variant id accepted as {y:?}"));
            }
        }
        Plan::Json => match serde_json::to_string(&x) {
            Ok(text) => {
                out.log.push_str(&text);
                if text != format!("\"{dbg_name}\"") {
                    out.fail("json-text:EulerRot", format!("{dbg_name} -> {text}"));
                }
                match serde_json::from_str::<EulerRot>(&text) {
                    Ok(y) if y == x => {}
                    other => out.fail("json-roundtrip:EulerRot", format!("{text} -> {other:?}")),
                }
            }
            Err(e) => out.fail("json-error:EulerRot", format!("{e}")),
        },
        _ => {}
    }
    out
}

trait DeWith: Sized {
    fn deserialize_with<'de, D: serde::Deserializer<'de>>(d: D) -> Result<Self, D::Error>;
}
impl<T: DeserializeOwned> DeWith for T {
    fn deserialize_with<'de, D: serde::Deserializer<'de>>(d: D) -> Result<Self, D::Error> {
        T::deserialize(d)
    }
}

// ---------------------------------------------------------------------------------------------
// byte images: bytemuck

fn elem_offsets<T: GlamTy>() -> Vec<usize> {
    let es = core::mem::size_of::<T::E>();
    match T::NAME {
        "Mat3A" | "Affine3A" => (0..T::N).map(|i| (i / 3) * core::mem::size_of::<Vec3A>() + (i % 3) * es).collect(),
        _ => (0..T::N).map(|i| i * es).collect(),
    }
}

fn elem_bytes<E: Scalar>(bits: u64) -> Vec<u8> {
    let es = core::mem::size_of::<E>();
    bits.to_ne_bytes()[..es].to_vec() // little-endian host (x86_64); checked in selftest
}

/// model image: elements at their offsets, padding filled from `pad`
fn model_image<T: GlamTy>(bits: &[u64], pad: u8) -> Vec<u8> {
    let mut img = vec![pad; core::mem::size_of::<T>()];
    for (i, off) in elem_offsets::<T>().into_iter().enumerate() {
        let eb = elem_bytes::<T::E>(bits[i]);
        img[off..off + eb.len()].copy_from_slice(&eb);
    }
    img
}

fn owner_of_byte<T: GlamTy>(byte: usize) -> Option<(usize, usize)> {
    let es = core::mem::size_of::<T::E>();
    for (i, off) in elem_offsets::<T>().into_iter().enumerate() {
        if byte >= off && byte < off + es {
            return Some((i, byte - off));
        }
    }
    None
}

struct PodProbe<T>(core::marker::PhantomData<T>);
trait NotPod {
    fn is_pod(&self) -> bool {
        false
    }
}
impl<T> NotPod for PodProbe<T> {}
impl<T: bytemuck::Pod> PodProbe<T> {
    #[allow(dead_code)]
    fn is_pod(&self) -> bool {
        true
    }
}

struct NoUninitProbe<T>(core::marker::PhantomData<T>);
trait NotNoUninit {
    fn is_no_uninit(&self) -> bool {
        false
    }
}
impl<T> NotNoUninit for NoUninitProbe<T> {}
impl<T: bytemuck::NoUninit> NoUninitProbe<T> {
    #[allow(dead_code)]
    fn is_no_uninit(&self) -> bool {
        true
    }
}

fn observers<T: GlamTy + core::fmt::Debug>(x: &T) -> (Vec<u64>, String) {
    (model_bits(x), format!("{x:?}"))
}

/// Reads from arbitrary bytes (needs only AnyBitPattern); `is_pod` adds the write-side checks.
fn bytes_case<T>(plan: &Plan, v: &Val, (is_pod, is_no_uninit): (bool, bool), bytes_of: Option<fn(&T) -> Vec<u8>>, cast_slice_rt: Option<fn(&T) -> Result<(), String>>) -> CaseOut
where
    T: GlamTy + V + bytemuck::AnyBitPattern + core::fmt::Debug,
{
    let mut out = CaseOut::default();
    let x = T::from_val(v);
    let name = T::NAME;
    let bits = model_bits(&x);
    let size = core::mem::size_of::<T>();
    let es = core::mem::size_of::<T::E>();
    match plan {
        Plan::PodProbe => {
            let packed = size == T::N * es;
            if is_pod && !packed {
                out.fail(format!("pod-with-padding:{name}"), format!("{name} is Pod but has {} padding bytes", size - T::N * es));
            }
            // `NoUninit` is what bytes_of / cast_slice actually require: claiming it for a padded type exposes the padding
            // bytes as part of the byte image ("padding excluded") and is the write half of Pod
            if is_no_uninit && !packed {
                out.fail(
                    format!("pod-with-padding:{name}"),
                    format!("{name} implements bytemuck::NoUninit (bytes_of / cast_slice accept it) but has {} padding bytes", size - T::N * es),
                );
            }
        }
        Plan::PodZeroed => {
            let z: T = bytemuck::Zeroable::zeroed();
            let zb = model_bits(&z);
            if zb.iter().any(|b| *b != 0) {
                out.fail(format!("zeroed-not-zero:{name}"), format!("zeroed() has elements {}", render_bits(T::E::KIND, &zb)));
            }
            let y: T = bytemuck::pod_read_unaligned(&vec![0u8; size]);
            if model_bits(&y).iter().any(|b| *b != 0) {
                out.fail(format!("zeroed-not-zero:{name}"), "all-zero bytes do not read back as the zero value".to_string());
            }
        }
        Plan::PodImage => {
            // read: model image (with two different paddings) -> value with the model's elements
            for pad in [0x00u8, 0xA5] {
                let img = model_image::<T>(&bits, pad);
                // unaligned on purpose: offset 1 inside a larger buffer
                let mut buf = vec![0xEEu8; size + 2];
                buf[1..1 + size].copy_from_slice(&img);
                let y: T = bytemuck::pod_read_unaligned(&buf[1..1 + size]);
                let got = model_bits(&y);
                if got != bits {
                    out.fail(
                        format!("image-read:{name}"),
                        format!("bytes of {} read back as {}", render_bits(T::E::KIND, &bits), render_bits(T::E::KIND, &got)),
                    );
                }
            }
            if let Some(f) = bytes_of {
                let b = f(&x);
                out.log.push_bytes(&b);
                let img = model_image::<T>(&bits, 0);
                if b != img {
                    out.fail(format!("image-write:{name}"), format!("bytes_of = {b:02x?}, model image = {img:02x?}"));
                }
                let y: T = bytemuck::pod_read_unaligned(&b);
                if model_bits(&y) != bits {
                    out.fail(format!("image-roundtrip:{name}"), "bytes_of -> pod_read_unaligned is not the identity".to_string());
                }
                // arrays of values: stride = size, no padding between elements (cast_slice both ways)
                if let Some(cs) = cast_slice_rt {
                    if let Err(e) = cs(&x) {
                        out.fail(format!("image-cast-slice:{name}"), e);
                    }
                }
            }
        }
        Plan::PodBitflip { bit } => {
            let img = model_image::<T>(&bits, 0x5A);
            let mut flipped = img.clone();
            flipped[bit / 8] ^= 1 << (bit % 8);
            out.fault_reached = true;
            let y0: T = bytemuck::pod_read_unaligned(&img);
            let y1: T = bytemuck::pod_read_unaligned(&flipped);
            let got = model_bits(&y1);
            match owner_of_byte::<T>(bit / 8) {
                Some((lane, byte_in_elem)) => {
                    let mut want = bits.clone();
                    let ebit = byte_in_elem * 8 + bit % 8;
                    want[lane] ^= 1u64 << ebit;
                    // keep the model's sign/zero-extension convention
                    want[lane] = T::E::from_bits64(want[lane]).to_bits64();
                    if got != want {
                        out.fail(
                            format!("bitflip-lane:{name}"),
                            format!("flipping stored bit {bit} (element {lane} bit {ebit}) gave {} instead of {}", render_bits(T::E::KIND, &got), render_bits(T::E::KIND, &want)),
                        );
                    }
                }
                None => {
                    // a padding byte: unobservable
                    if observers(&y0) != observers(&y1) {
                        out.fail(
                            format!("padding-observable:{name}"),
                            format!("flipping padding bit {bit} changed the value: {:?} vs {:?}", observers(&y0), observers(&y1)),
                        );
                    }
                }
            }
        }
        _ => {}
    }
    out
}

fn cast_slice_roundtrip<T: GlamTy + bytemuck::Pod>(x: &T) -> Result<(), String> {
    let z: T = bytemuck::Zeroable::zeroed();
    let arr = [*x, z, *x];
    let bytes: &[u8] = bytemuck::cast_slice(&arr);
    let one = bytemuck::bytes_of(x);
    let size = core::mem::size_of::<T>();
    if bytes.len() != 3 * size || &bytes[..size] != one || &bytes[2 * size..] != one || bytes[size..2 * size].iter().any(|b| *b != 0) {
        return Err(format!("cast_slice of [x, zeroed, x] is not bytes_of(x) ++ zeros ++ bytes_of(x): {bytes:02x?}"));
    }
    let back: &[T] = bytemuck::try_cast_slice(bytes).map_err(|e| format!("try_cast_slice back failed: {e:?}"))?;
    if back.len() != 3 || model_bits(&back[0]) != model_bits(x) || model_bits(&back[2]) != model_bits(x) {
        return Err("cast_slice there and back is not the identity".to_string());
    }
    Ok(())
}

// ---------------------------------------------------------------------------------------------
// byte images: rkyv

/// `CheckBytes` where glam is built with its `bytecheck` feature, nothing otherwise (the `nocheck` configuration compiles
/// the `not(feature = "bytecheck")` arm of glam's rkyv code; archives are then accessed unchecked behind a length guard)
#[cfg(feature = "bytecheck")]
pub trait MaybeCheck: for<'a> rkyv::bytecheck::CheckBytes<rkyv::api::high::HighValidator<'a, rkyv::rancor::Error>> {}
#[cfg(feature = "bytecheck")]
impl<U: for<'a> rkyv::bytecheck::CheckBytes<rkyv::api::high::HighValidator<'a, rkyv::rancor::Error>>> MaybeCheck for U {}
#[cfg(not(feature = "bytecheck"))]
pub trait MaybeCheck {}
#[cfg(not(feature = "bytecheck"))]
impl<U> MaybeCheck for U {}

#[cfg(feature = "bytecheck")]
fn acc<U: rkyv::Portable + MaybeCheck>(b: &[u8]) -> Result<&U, String> {
    rkyv::access::<U, rkyv::rancor::Error>(b).map_err(|e| e.to_string())
}
#[cfg(not(feature = "bytecheck"))]
fn acc<U: rkyv::Portable + MaybeCheck>(b: &[u8]) -> Result<&U, String> {
    if b.len() < core::mem::size_of::<U>() {
        return Err("buffer shorter than the type (harness guard; no validation without bytecheck)".into());
    }
    // SAFETY: the buffer is an aligned rkyv buffer at least as long as U, and every U here accepts every bit pattern
    Ok(unsafe { rkyv::access_unchecked::<U>(b) })
}

fn rkyv_case<T>(plan: &Plan, v: &Val) -> CaseOut
where
    T: GlamTy + V + core::fmt::Debug,
    T: rkyv::Archive<Archived = T>
        + for<'a> rkyv::Serialize<rkyv::api::high::HighSerializer<rkyv::util::AlignedVec, rkyv::ser::allocator::ArenaHandle<'a>, rkyv::rancor::Error>>
        + MaybeCheck
        + rkyv::Deserialize<T, rkyv::api::high::HighDeserializer<rkyv::rancor::Error>>
        + rkyv::Portable,
    rkyv::tuple::ArchivedTuple3<u8, T, u8>: MaybeCheck,
    [T; 3]: MaybeCheck,
{
    let mut out = CaseOut::default();
    let x = T::from_val(v);
    let name = T::NAME;
    let bits = model_bits(&x);
    let size = core::mem::size_of::<T>();
    let bytes = match rkyv::to_bytes::<rkyv::rancor::Error>(&x) {
        Ok(b) => b,
        Err(e) => {
            out.fail(format!("rkyv-error:{name}"), format!("to_bytes failed: {e}"));
            return out;
        }
    };
    let root = bytes.len().saturating_sub(size);
    let offs = elem_offsets::<T>();
    let es = core::mem::size_of::<T::E>();
    match plan {
        Plan::RkyvImage => {
            // elements at their offsets (padding bytes never read)
            for (i, off) in offs.iter().enumerate() {
                let want = elem_bytes::<T::E>(bits[i]);
                let got = &bytes[root + off..root + off + es];
                out.log.push_bytes(got);
                if got != &want[..] {
                    out.fail(format!("image-write:{name}"), format!("archive element {i} bytes {got:02x?}, model {want:02x?}"));
                }
            }
            match acc::<T>(&bytes) {
                Ok(a) => {
                    if model_bits(a) != bits {
                        out.fail(format!("image-read:{name}"), format!("archived view has elements {}", render_bits(T::E::KIND, &model_bits(a))));
                    }
                    match rkyv::deserialize::<T, rkyv::rancor::Error>(a) {
                        Ok(y) => {
                            if model_bits(&y) != bits {
                                out.fail(format!("image-roundtrip:{name}"), format!("deserialize gives {}", render_bits(T::E::KIND, &model_bits(&y))));
                            }
                        }
                        Err(e) => out.fail(format!("rkyv-error:{name}"), format!("deserialize failed: {e}")),
                    }
                }
                Err(e) => out.fail(format!("rkyv-error:{name}"), format!("access rejected own archive: {e}")),
            }
        }
        Plan::RkyvBitflip { bit } => {
            let mut flipped = rkyv::util::AlignedVec::<16>::new();
            flipped.extend_from_slice(&bytes);
            let byte = root + bit / 8;
            flipped[byte] ^= 1 << (bit % 8);
            out.fault_reached = true;
            match acc::<T>(&flipped) {
                Ok(a) => {
                    let got = model_bits(a);
                    match owner_of_byte::<T>(bit / 8) {
                        Some((lane, byte_in_elem)) => {
                            let mut want = bits.clone();
                            let ebit = byte_in_elem * 8 + bit % 8;
                            want[lane] ^= 1u64 << ebit;
                            want[lane] = T::E::from_bits64(want[lane]).to_bits64();
                            if got != want {
                                out.fail(
                                    format!("bitflip-lane:{name}"),
                                    format!("archive bit {bit} (element {lane} bit {ebit}) flipped: got {} want {}", render_bits(T::E::KIND, &got), render_bits(T::E::KIND, &want)),
                                );
                            }
                        }
                        None => {
                            let a0 = acc::<T>(&bytes).ok();
                            if let Some(a0) = a0 {
                                if observers(a0) != observers(a) {
                                    out.fail(format!("padding-observable:{name}"), format!("flipping padding bit {bit} changed the archived value"));
                                }
                            }
                        }
                    }
                }
                Err(e) => out.fail(format!("rkyv-error:{name}"), format!("access rejected a flipped archive (all bit patterns are valid): {e}")),
            }
        }
        Plan::RkyvNested => {
            // the value inside containers: a tuple (shifts it off the start of the buffer, behind alignment padding)
            // and an array (stride = size)
            let z: T = {
                let zb: Vec<T::E> = (0..T::N).map(|_| T::E::from_bits64(0)).collect();
                T::from_elems(&zb)
            };
            match rkyv::to_bytes::<rkyv::rancor::Error>(&(7u8, x, 9u8)) {
                Ok(b) => match acc::<rkyv::tuple::ArchivedTuple3<u8, T, u8>>(&b) {
                    Ok(a) => {
                        if a.0 != 7 || a.2 != 9 || model_bits(&a.1) != bits {
                            out.fail(format!("image-nested:{name}"), format!("(7u8, value, 9u8) archived and accessed gives ({}, {}, {})", a.0, render_bits(T::E::KIND, &model_bits(&a.1)), a.2));
                        }
                    }
                    Err(e) => out.fail(format!("rkyv-error:{name}"), format!("access of an archived (u8, {name}, u8) failed: {e}")),
                },
                Err(e) => out.fail(format!("rkyv-error:{name}"), format!("to_bytes of (u8, {name}, u8) failed: {e}")),
            }
            match rkyv::to_bytes::<rkyv::rancor::Error>(&[x, z, x]) {
                Ok(b) => match acc::<[T; 3]>(&b) {
                    Ok(a) => {
                        if model_bits(&a[0]) != bits || model_bits(&a[2]) != bits || model_bits(&a[1]).iter().any(|w| *w != 0) {
                            out.fail(format!("image-nested:{name}"), "[value, zero, value] archived and accessed does not give the same three values".to_string());
                        }
                        if b.len() != 3 * size {
                            out.fail(format!("image-nested:{name}"), format!("archive of [{name}; 3] is {} bytes, 3 x size_of is {}", b.len(), 3 * size));
                        }
                    }
                    Err(e) => out.fail(format!("rkyv-error:{name}"), format!("access of an archived [{name}; 3] failed: {e}")),
                },
                Err(e) => out.fail(format!("rkyv-error:{name}"), format!("to_bytes of [{name}; 3] failed: {e}")),
            }
        }
        Plan::RkyvTrunc { n } => {
            let n = (*n).min(bytes.len());
            out.fault_reached = n < bytes.len();
            let mut cut = rkyv::util::AlignedVec::<16>::new();
            cut.extend_from_slice(&bytes[..n]);
            let r = acc::<T>(&cut);
            if n < size {
                if let Ok(a) = r {
                    out.fail(
                        format!("rkyv-accepts-truncated:{name}"),
                        format!("{n}-byte buffer (type needs {size}) accepted as {}", render_bits(T::E::KIND, &model_bits(a))),
                    );
                }
            }
        }
        _ => {}
    }
    out
}

// ---------------------------------------------------------------------------------------------
// mint

trait MintCheck: GlamTy {
    /// returns Err(description) if the conversion there-and-back or the entry mapping is off
    fn mint_check(&self) -> Result<(), String>;
}

fn eqbits<E: Scalar>(a: E, b: E) -> bool {
    a.to_bits64() == b.to_bits64()
}

macro_rules! mint_fields {
    ($a:ident, $m:ident, $T:ident, $M:ident, [$($f:ident $i:expr),+]) => {
        $( if !eqbits($a.$f, $m[$i]) { return Err(format!("{}.{} of mint::{} is not lane {}", stringify!($T), stringify!($f), stringify!($M), $i)); } )+
    };
}
macro_rules! mint_vec {
    ($T:ident, $E:ty, [$($M:ident),+], $fields:tt) => {
        impl MintCheck for $T {
            fn mint_check(&self) -> Result<(), String> {
                let m = self.to_elems();
                $(
                    let a: mint::$M<$E> = (*self).into();
                    mint_fields!(a, m, $T, $M, $fields);
                    let back: $T = a.into();
                    if model_bits(&back) != model_bits(self) { return Err(format!("{} -> mint::{} -> {} is not the identity", stringify!($T), stringify!($M), stringify!($T))); }
                )+
                Ok(())
            }
        }
    };
}
macro_rules! mint_vec_fam {
    ($E:ty, $V2:ident, $V3:ident, $V4:ident) => {
        mint_vec!($V2, $E, [Point2, Vector2], [x 0, y 1]);
        mint_vec!($V3, $E, [Point3, Vector3], [x 0, y 1, z 2]);
        mint_vec!($V4, $E, [Vector4], [x 0, y 1, z 2, w 3]);
    };
}
mint_vec_fam!(f32, Vec2, Vec3, Vec4);
mint_vec!(Vec3A, f32, [Point3, Vector3], [x 0, y 1, z 2]);
mint_vec_fam!(f64, DVec2, DVec3, DVec4);
mint_vec_fam!(i8, I8Vec2, I8Vec3, I8Vec4);
mint_vec_fam!(u8, U8Vec2, U8Vec3, U8Vec4);
mint_vec_fam!(i16, I16Vec2, I16Vec3, I16Vec4);
mint_vec_fam!(u16, U16Vec2, U16Vec3, U16Vec4);
mint_vec_fam!(i32, IVec2, IVec3, IVec4);
mint_vec_fam!(u32, UVec2, UVec3, UVec4);
mint_vec_fam!(i64, I64Vec2, I64Vec3, I64Vec4);
mint_vec_fam!(u64, U64Vec2, U64Vec3, U64Vec4);
mint_vec_fam!(usize, USizeVec2, USizeVec3, USizeVec4);

macro_rules! mint_quat {
    ($T:ident, $E:ty) => {
        impl MintCheck for $T {
            fn mint_check(&self) -> Result<(), String> {
                let m = self.to_elems();
                let a: mint::Quaternion<$E> = (*self).into();
                if !(eqbits(a.v.x, m[0]) && eqbits(a.v.y, m[1]) && eqbits(a.v.z, m[2]) && eqbits(a.s, m[3])) {
                    return Err(format!("mint::Quaternion of {} is not (v = xyz, s = w)", stringify!($T)));
                }
                let back: $T = a.into();
                if model_bits(&back) != model_bits(self) {
                    return Err(format!("{} -> mint::Quaternion -> back is not the identity", stringify!($T)));
                }
                Ok(())
            }
        }
    };
}
mint_quat!(Quat, f32);
mint_quat!(DQuat, f64);

macro_rules! mint_mat {
    ($T:ident, $E:ty, $R:expr, $Col:ident, $Row:ident, [$($f:ident $i:expr),+]) => {
        impl MintCheck for $T {
            fn mint_check(&self) -> Result<(), String> {
                let m = self.to_elems(); // column-major: entry (r, c) = m[c * R + r]
                let cm: mint::$Col<$E> = (*self).into();
                let rm: mint::$Row<$E> = (*self).into();
                // column-major mint type: field c is column c
                let cols = [$( { let v = cm.$f; let a: [$E; $R] = v.into(); a } ),+];
                let rows = [$( { let v = rm.$f; let a: [$E; $R] = v.into(); a } ),+];
                for c in 0..$R { for r in 0..$R {
                    if !eqbits(cols[c][r], m[c * $R + r]) {
                        return Err(format!("mint::{} of {}: column {c} row {r} is not entry ({r},{c})", stringify!($Col), stringify!($T)));
                    }
                    if !eqbits(rows[r][c], m[c * $R + r]) {
                        return Err(format!("mint::{} of {}: row {r} column {c} is not entry ({r},{c})", stringify!($Row), stringify!($T)));
                    }
                } }
                let b1: $T = cm.into();
                let b2: $T = rm.into();
                if model_bits(&b1) != model_bits(self) { return Err(format!("{} -> mint::{} -> back is not the identity", stringify!($T), stringify!($Col))); }
                if model_bits(&b2) != model_bits(self) { return Err(format!("{} -> mint::{} -> back is not the identity", stringify!($T), stringify!($Row))); }
                Ok(())
            }
        }
    };
}
mint_mat!(Mat2, f32, 2, ColumnMatrix2, RowMatrix2, [x 0, y 1]);
mint_mat!(Mat3, f32, 3, ColumnMatrix3, RowMatrix3, [x 0, y 1, z 2]);
mint_mat!(Mat3A, f32, 3, ColumnMatrix3, RowMatrix3, [x 0, y 1, z 2]);
mint_mat!(Mat4, f32, 4, ColumnMatrix4, RowMatrix4, [x 0, y 1, z 2, w 3]);
mint_mat!(DMat2, f64, 2, ColumnMatrix2, RowMatrix2, [x 0, y 1]);
mint_mat!(DMat3, f64, 3, ColumnMatrix3, RowMatrix3, [x 0, y 1, z 2]);
mint_mat!(DMat4, f64, 4, ColumnMatrix4, RowMatrix4, [x 0, y 1, z 2, w 3]);

fn mint_case<T>(plan: &Plan, v: &Val) -> CaseOut
where
    T: MintCheck + V + mint::IntoMint + From<<T as mint::IntoMint>::MintType>,
{
    let mut out = CaseOut::default();
    if let Plan::Mint = plan {
        let x = T::from_val(v);
        if let Err(e) = x.mint_check() {
            out.fail(format!("mint:{}", T::NAME), e);
        }
        // the `IntoMint` association: whatever type it names must round-trip too
        let m: <T as mint::IntoMint>::MintType = x.into();
        let back: T = m.into();
        if model_bits(&back) != model_bits(&x) {
            out.fail(format!("mint:{}", T::NAME), format!("{} -> IntoMint::MintType -> back is not the identity", T::NAME));
        }
    }
    out
}

// ---------------------------------------------------------------------------------------------
// type table

macro_rules! e19 {
    ($T:ident, serde=$s:tt, bytes=$b:tt, rkyv=$r:tt, mint=$m:tt) => {
        Entry19 {
            name: stringify!($T),
            ty: Ty::G(TyId::$T),
            n: <$T as GlamTy>::N,
            size: core::mem::size_of::<$T>(),
            serde: e19!(@serde $T $s),
            bytes: e19!(@bytes $T $b),
            rkyv: e19!(@rkyv $T $r),
            mint: e19!(@mint $T $m),
        }
    };
    (@serde $T:ident y) => { Some(serde_case::<$T> as CaseFn) };
    (@serde $T:ident n) => { None };
    (@bytes $T:ident pod) => { Some((|p: &Plan, v: &Val| bytes_case::<$T>(p, v, (PodProbe::<$T>(core::marker::PhantomData).is_pod(), NoUninitProbe::<$T>(core::marker::PhantomData).is_no_uninit()), Some(|x: &$T| bytemuck::bytes_of(x).to_vec()), Some(cast_slice_roundtrip::<$T>))) as CaseFn) };
    (@bytes $T:ident any) => { Some((|p: &Plan, v: &Val| bytes_case::<$T>(p, v, (PodProbe::<$T>(core::marker::PhantomData).is_pod(), NoUninitProbe::<$T>(core::marker::PhantomData).is_no_uninit()), None, None)) as CaseFn) };
    (@bytes $T:ident n) => { None };
    (@rkyv $T:ident y) => { Some(rkyv_case::<$T> as CaseFn) };
    (@rkyv $T:ident n) => { None };
    (@mint $T:ident y) => { Some(mint_case::<$T> as CaseFn) };
    (@mint $T:ident n) => { None };
}

pub fn entries() -> Vec<Entry19> {
    let mut v = vec![
        e19!(Vec2, serde = y, bytes = pod, rkyv = y, mint = y),
        e19!(Vec3, serde = y, bytes = pod, rkyv = y, mint = y),
        e19!(Vec3A, serde = y, bytes = any, rkyv = y, mint = y),
        e19!(Vec4, serde = y, bytes = pod, rkyv = y, mint = y),
        e19!(DVec2, serde = y, bytes = pod, rkyv = y, mint = y),
        e19!(DVec3, serde = y, bytes = pod, rkyv = y, mint = y),
        e19!(DVec4, serde = y, bytes = pod, rkyv = y, mint = y),
        e19!(I8Vec2, serde = y, bytes = pod, rkyv = y, mint = y),
        e19!(I8Vec3, serde = y, bytes = pod, rkyv = y, mint = y),
        e19!(I8Vec4, serde = y, bytes = pod, rkyv = y, mint = y),
        e19!(U8Vec2, serde = y, bytes = pod, rkyv = y, mint = y),
        e19!(U8Vec3, serde = y, bytes = pod, rkyv = y, mint = y),
        e19!(U8Vec4, serde = y, bytes = pod, rkyv = y, mint = y),
        e19!(I16Vec2, serde = y, bytes = pod, rkyv = y, mint = y),
        e19!(I16Vec3, serde = y, bytes = pod, rkyv = y, mint = y),
        e19!(I16Vec4, serde = y, bytes = pod, rkyv = y, mint = y),
        e19!(U16Vec2, serde = y, bytes = pod, rkyv = y, mint = y),
        e19!(U16Vec3, serde = y, bytes = pod, rkyv = y, mint = y),
        e19!(U16Vec4, serde = y, bytes = pod, rkyv = y, mint = y),
        e19!(IVec2, serde = y, bytes = pod, rkyv = y, mint = y),
        e19!(IVec3, serde = y, bytes = pod, rkyv = y, mint = y),
        e19!(IVec4, serde = y, bytes = pod, rkyv = y, mint = y),
        e19!(UVec2, serde = y, bytes = pod, rkyv = y, mint = y),
        e19!(UVec3, serde = y, bytes = pod, rkyv = y, mint = y),
        e19!(UVec4, serde = y, bytes = pod, rkyv = y, mint = y),
        e19!(I64Vec2, serde = y, bytes = pod, rkyv = y, mint = y),
        e19!(I64Vec3, serde = y, bytes = pod, rkyv = y, mint = y),
        e19!(I64Vec4, serde = y, bytes = pod, rkyv = y, mint = y),
        e19!(U64Vec2, serde = y, bytes = pod, rkyv = y, mint = y),
        e19!(U64Vec3, serde = y, bytes = pod, rkyv = y, mint = y),
        e19!(U64Vec4, serde = y, bytes = pod, rkyv = y, mint = y),
        e19!(USizeVec2, serde = y, bytes = n, rkyv = n, mint = y),
        e19!(USizeVec3, serde = y, bytes = n, rkyv = n, mint = y),
        e19!(USizeVec4, serde = y, bytes = n, rkyv = n, mint = y),
        e19!(Quat, serde = y, bytes = pod, rkyv = y, mint = y),
        e19!(DQuat, serde = y, bytes = pod, rkyv = y, mint = y),
        e19!(Mat2, serde = y, bytes = pod, rkyv = y, mint = y),
        e19!(Mat3, serde = y, bytes = pod, rkyv = y, mint = y),
        e19!(Mat3A, serde = y, bytes = any, rkyv = y, mint = y),
        e19!(Mat4, serde = y, bytes = pod, rkyv = y, mint = y),
        e19!(DMat2, serde = y, bytes = pod, rkyv = y, mint = y),
        e19!(DMat3, serde = y, bytes = pod, rkyv = y, mint = y),
        e19!(DMat4, serde = y, bytes = pod, rkyv = y, mint = y),
        e19!(Affine2, serde = y, bytes = any, rkyv = y, mint = n),
        e19!(Affine3A, serde = y, bytes = any, rkyv = y, mint = n),
        e19!(DAffine2, serde = y, bytes = pod, rkyv = y, mint = n),
        e19!(DAffine3, serde = y, bytes = pod, rkyv = y, mint = n),
        e19!(BVec2, serde = y, bytes = n, rkyv = n, mint = n),
        e19!(BVec3, serde = y, bytes = n, rkyv = n, mint = n),
        e19!(BVec4, serde = y, bytes = n, rkyv = n, mint = n),
    ];
    #[cfg(not(feature = "scalar-math"))]
    {
        v.push(e19!(BVec3A, serde = y, bytes = n, rkyv = n, mint = n));
        v.push(e19!(BVec4A, serde = y, bytes = n, rkyv = n, mint = n));
    }
    v.push(Entry19 { name: "EulerRot", ty: Ty::Euler, n: 1, size: 1, serde: Some(euler_case as CaseFn), bytes: None, rkyv: None, mint: None });
    v
}

/// The complete fault-plan space of one type.
pub fn plans(e: &Entry19) -> Vec<Plan> {
    let n = e.n;
    let mut p = Vec::new();
    let is_euler = e.name == "EulerRot";
    let is_bool = matches!(e.ty, Ty::G(t) if t.elem() == Elem::Bool);
    if e.serde.is_some() {
        p.push(Plan::SerClean { hr: false });
        p.push(Plan::SerClean { hr: true });
        p.push(Plan::Json);
        if is_euler {
            p.push(Plan::SerFail { k: 0 });
            for i in 0..3 {
                p.push(Plan::DeHostile { entry: i });
            }
        } else {
            for k in 0..=n + 1 {
                p.push(Plan::SerFail { k });
            }
            for hint in 0..8 {
                p.push(Plan::DeClean { hint });
            }
            for j in 0..n {
                p.push(Plan::DeEof { j, hint_lies: false });
                p.push(Plan::DeEof { j, hint_lies: true });
                p.push(Plan::DeErr { k: j });
                for wrong in 0..if is_bool { N_WRONG_BOOL } else { N_WRONG_NUM } {
                    p.push(Plan::DeKind { k: j, wrong });
                }
            }
            // "rejects sequences of any other length": not only N+1 and N+2, and not only with arbitrary surplus content
            for count in [1usize, 2, 3, 4, 6, 8, 12, 16] {
                for content in 0..4usize {
                    p.push(Plan::DeSurplus { extra: count + 32 * content, check_trailing: true });
                    p.push(Plan::DeSurplus { extra: count + 32 * content, check_trailing: false });
                }
            }
            for entry in 0..HOSTILE_ENTRIES.len() {
                p.push(Plan::DeHostile { entry });
            }
            for len in 0..=n + 2 {
                p.push(Plan::JsonLen { len });
            }
            for which in 0..6 {
                p.push(Plan::JsonShape { which });
            }
        }
    }
    if e.bytes.is_some() {
        p.push(Plan::PodProbe);
        p.push(Plan::PodImage);
        p.push(Plan::PodZeroed);
        for bit in 0..e.size * 8 {
            p.push(Plan::PodBitflip { bit });
        }
    }
    if e.rkyv.is_some() {
        p.push(Plan::RkyvImage);
        p.push(Plan::RkyvNested);
        for bit in 0..e.size * 8 {
            p.push(Plan::RkyvBitflip { bit });
        }
        for nn in 0..=e.size {
            p.push(Plan::RkyvTrunc { n: nn });
        }
    }
    if e.mint.is_some() {
        p.push(Plan::Mint);
    }
    p
}

fn run_plan(e: &Entry19, plan: &Plan, v: &Val) -> CaseOut {
    let f = match plan {
        Plan::PodProbe | Plan::PodImage | Plan::PodZeroed | Plan::PodBitflip { .. } => e.bytes,
        Plan::RkyvImage | Plan::RkyvBitflip { .. } | Plan::RkyvTrunc { .. } | Plan::RkyvNested => e.rkyv,
        Plan::Mint => e.mint,
        _ => e.serde,
    };
    let f = f.expect("plan for a feature the type does not have");
    match util::catch(|| f(plan, v)) {
        Ok(o) => o,
        Err(p) => {
            let mut o = CaseOut::default();
            o.fault_reached = true;
            o.fail(format!("panic:{}:{}", e.name, plan.to_json()["kind"].as_str().unwrap()), format!("panicked: {} at {}", p.msg, p.loc));
            o
        }
    }
}

/// value `vi` of a type: a few fixed shapes first, then seeded; masks exhaustively.
fn gen_value(e: &Entry19, seed: u64, ti: usize, vi: usize) -> Val {
    let mut rng = Rng::new(seed, "c19-value", (ti as u64) << 32 | vi as u64);
    match e.ty {
        Ty::Euler => Val::Euler(EULER_ALL[vi % 24]),
        Ty::G(t) => {
            let n = t.n();
            let el = t.elem();
            let bits: Vec<u64> = if el == Elem::Bool {
                (0..n).map(|i| if vi < (1 << n) { ((vi >> i) & 1) as u64 } else { rng.next_u64() & 1 }).collect()
            } else {
                match vi {
                    // pairwise distinct ordinary values 1, 2, 3, ...
                    0 => (0..n).map(|i| ordinal(el, i + 1)).collect(),
                    // all zero; and "identity-like": ones where a square / affine matrix has its diagonal, zeros elsewhere
                    4 => vec![ordinal(el, 0); n],
                    5 => {
                        let d = match n { 4 => 2, 9 => 3, 16 => 4, 6 => 2, 12 => 3, _ => 1 };
                        (0..n).map(|i| if i / d == i % d && i / d < d { ordinal(el, 1) } else { ordinal(el, 0) }).collect()
                    }
                    // every element a different lattice point
                    1 => (0..n).map(|i| gen_scalar_bits(el, &mut rng, Cls::Lattice(i + 7))).collect(),
                    2 => (0..n).map(|i| gen_scalar_bits(el, &mut rng, Cls::Lattice(NUM_F_LATTICE - 1 - (i % NUM_F_LATTICE)))).collect(),
                    3 => (0..n).map(|_| gen_scalar_bits(el, &mut rng, Cls::RandomBits)).collect(),
                    _ => (0..n).map(|_| gen_scalar_bits(el, &mut rng, Cls::Mix)).collect(),
                }
            };
            t.from_bits(&bits)
        }
        _ => unreachable!(),
    }
}

/// Values with *relations between their elements* that per-element sampling never produces: unit and nearly unit
/// vectors / quaternions, orthonormal and nearly orthonormal matrices (a unit shape scaled by 1 + d for d from 3e-7 to
/// 1e-2, both signs), identity scaled likewise, all elements equal, pairs of equal and of opposite elements, an affine
/// translation equal to a column. Code that canonicalises, snaps, normalises or de-duplicates does so only here.
/// Round-trip plans run all of them in addition to the per-element values.
fn shape_values(t: TyId) -> Vec<Val> {
    let n = t.n();
    let el = t.elem();
    let mut out: Vec<Vec<u64>> = Vec::new();
    match el {
        Elem::Bool => {}
        Elem::F32 | Elem::F64 => {
            let fb = |x: f64| if el == Elem::F32 { (x as f32).to_bits() as u64 } else { x.to_bits() };
            let name = t.name();
            // (d, translation elements): square / affine matrices
            let (d, tr) = match name {
                "Mat2" | "DMat2" => (2, 0),
                "Mat3" | "Mat3A" | "DMat3" => (3, 0),
                "Mat4" | "DMat4" => (4, 0),
                "Affine2" | "DAffine2" => (2, 2),
                "Affine3A" | "DAffine3" => (3, 3),
                _ => (0, 0),
            };
            let mut bases: Vec<Vec<f64>> = Vec::new();
            if d > 0 {
                let rot: Vec<f64> = if d == 2 {
                    let (s, c) = (0.3f64.sin(), 0.3f64.cos());
                    vec![c, s, -s, c]
                } else {
                    // rotation of the unit quaternion (1, 2, 3, 4) / sqrt(30), column-major
                    let k = 30f64.sqrt();
                    let (x, y, z, w) = (1.0 / k, 2.0 / k, 3.0 / k, 4.0 / k);
                    let r3 = [
                        1.0 - 2.0 * (y * y + z * z), 2.0 * (x * y + w * z), 2.0 * (x * z - w * y),
                        2.0 * (x * y - w * z), 1.0 - 2.0 * (x * x + z * z), 2.0 * (y * z + w * x),
                        2.0 * (x * z + w * y), 2.0 * (y * z - w * x), 1.0 - 2.0 * (x * x + y * y),
                    ];
                    (0..d * d).map(|i| { let (c, r) = (i / d, i % d); if c < 3 && r < 3 { r3[c * 3 + r] } else if c == r { 1.0 } else { 0.0 } }).collect()
                };
                let ident: Vec<f64> = (0..d * d).map(|i| if i / d == i % d { 1.0 } else { 0.0 }).collect();
                bases.push(rot);
                bases.push(ident);
            } else {
                let norm = (1..=n).map(|i| (i * i) as f64).sum::<f64>().sqrt();
                bases.push((1..=n).map(|i| i as f64 / norm).collect());
                bases.push((0..n).map(|i| if i + 1 == n { 1.0 } else { 0.0 }).collect());
                if n >= 3 {
                    bases.push((0..n).map(|i| [0.6, 0.0, 0.8, 0.0][i]).collect());
                }
            }
            let deltas = [0.0, 3e-7, -3e-7, 2e-6, -2e-6, 1e-5, -1e-5, 1e-4, -1e-4, 2e-4, 5e-4, -5e-4, 1e-3, -1e-3, 5e-3, 1e-2, -1e-2];
            for b in &bases {
                for dl in deltas {
                    let mut v: Vec<f64> = b.iter().map(|x| x * (1.0 + dl)).collect();
                    // zero translation and (1, 2, 3): alternate
                    v.extend((0..tr).map(|i| if dl > 0.0 { 1.0 + i as f64 } else { 0.0 }));
                    out.push(v.iter().map(|x| fb(*x)).collect());
                }
            }
            let ord: Vec<f64> = (1..=n).map(|i| i as f64 + 0.25).collect();
            out.push(vec![fb(0.7); n]);
            let mut v = ord.clone(); v[1] = v[0]; out.push(v.iter().map(|x| fb(*x)).collect());
            let mut v = ord.clone(); v[1] = -v[0]; out.push(v.iter().map(|x| fb(*x)).collect());
            let mut v = ord.clone(); v[n - 1] = v[0]; out.push(v.iter().map(|x| fb(*x)).collect());
            let mut v = ord.clone(); v[n - 1] = -v[n - 2]; out.push(v.iter().map(|x| fb(*x)).collect());
            out.push(ord.iter().enumerate().map(|(i, x)| fb(if i % 2 == 0 { *x } else { -ord[i - 1] })).collect());
            if tr > 0 {
                // translation equal to the first column / to the last column
                let mut v = ord.clone(); for i in 0..tr { v[d * d + i] = v[i]; } out.push(v.iter().map(|x| fb(*x)).collect());
                let mut v = ord.clone(); for i in 0..tr { v[d * d + i] = v[d * (d - 1) + i]; } out.push(v.iter().map(|x| fb(*x)).collect());
            }
            if d > 0 {
                // two equal columns; a symmetric matrix
                let mut v = ord.clone(); for i in 0..d { v[d + i] = v[i]; } out.push(v.iter().map(|x| fb(*x)).collect());
                let mut v = ord.clone(); for c in 0..d { for r in 0..c { v[c * d + r] = v[r * d + c]; } } out.push(v.iter().map(|x| fb(*x)).collect());
            }
        }
        _ => {
            let mut rng = Rng::new(0, "c19-shape", n as u64);
            let big = gen_scalar_bits(el, &mut rng, Cls::RandomBits);
            let ord: Vec<u64> = (1..=n).map(|i| ordinal(el, i + 1)).collect();
            out.push(vec![ordinal(el, 7); n]);
            out.push(vec![big; n]);
            let mut v = ord.clone(); v[1] = v[0]; out.push(v);
            let mut v = ord.clone(); v[n - 1] = v[0]; out.push(v);
            let mut v = ord.clone(); v[0] = big; v[n - 1] = big; out.push(v);
            // x == -y where the type has a sign (two's complement of the ordinal, cut to the element width by from_bits)
            let mut v = ord.clone(); v[1] = gen_scalar_bits(el, &mut rng, Cls::Lattice(2)); v[0] = ordinal(el, 1); out.push(v);
        }
    }
    out.into_iter().filter(|b| b.len() == n).map(|b| t.from_bits(&b)).collect()
}

fn ordinal(e: Elem, k: usize) -> u64 {
    match e {
        Elem::F32 => (k as f32).to_bits() as u64,
        Elem::F64 => (k as f64).to_bits(),
        _ => k as u64,
    }
}

fn case_replay(e: &Entry19, plan: &Plan, v: &Val, seed: u64, class: &str, detail: &str, shrunk: bool) -> J {
    json!({
        "property": "C19",
        "config": util::CONFIG_TAG,
        "profile": util::profile_tag(),
        "seed": seed,
        "type": e.name,
        "plan": plan.to_json(),
        "value": v.to_json(),
        "violation_class": class,
        "observed": detail,
        "value_minimised": shrunk,
    })
}

/// Simplify the value while the same violation class persists (0, then 1, per element).
fn shrink(e: &Entry19, plan: &Plan, v: &Val, class: &str) -> Val {
    let Ty::G(t) = e.ty else { return v.clone() };
    let (_, mut bits) = v.glam_bits().unwrap();
    let el = t.elem();
    for i in 0..bits.len() {
        for cand in [ordinal(el, 0), ordinal(el, 1), ordinal(el, i + 1)] {
            if bits[i] == cand {
                break;
            }
            let mut b2 = bits.clone();
            b2[i] = if el == Elem::Bool { cand & 1 } else { cand };
            let v2 = t.from_bits(&b2);
            let o = run_plan(e, plan, &v2);
            if matches!(&o.viol, Some((c, _)) if c == class) {
                bits = b2;
                break;
            }
        }
    }
    t.from_bits(&bits)
}

pub fn run(seed: u64, values_per_plan: usize, workers: usize) -> Summary {
    let ents = entries();
    let mut cases: Vec<(usize, Plan)> = Vec::new();
    for (ti, e) in ents.iter().enumerate() {
        for p in plans(e) {
            cases.push((ti, p));
        }
    }
    let mut sum = Summary::default();
    for k in ["SER_ERR@k", "DE_EOF@j", "DE_ERR@k", "DE_KIND@k", "DE_SURPLUS", "DE_HOSTILE_ENTRY", "JSON_LEN", "JSON_SHAPE", "BITFLIP@b", "TRUNCATE@n"] {
        sum.faults_fired.insert(k.into(), 0);
        sum.faults_effective.insert(k.into(), 0);
    }
    let total = cases.len() * values_per_plan;
    let mut shape_total = 0usize;
    let job = |i: usize| {
        let (ti, plan) = &cases[i / values_per_plan];
        let vi = i % values_per_plan;
        let e = &ents[*ti];
        let mut v = gen_value(e, seed, *ti, vi);
        let mut o = run_plan(e, plan, &v);
        if e.ty == Ty::Euler {
            // the enum has 24 values: every plan sees all of them, whatever values_per_plan is
            for k in 1..3 {
                if o.viol.is_some() {
                    break;
                }
                v = gen_value(e, seed, *ti, vi + k * values_per_plan.max(8));
                o = run_plan(e, plan, &v);
            }
        }
        if vi == 0 && o.viol.is_none() && plan.is_round_trip() {
            if let Ty::G(t) = e.ty {
                for sv in shape_values(t) {
                    let o2 = run_plan(e, plan, &sv);
                    if o2.viol.is_some() {
                        v = sv;
                        o.viol = o2.viol;
                        break;
                    }
                    o.shape_values_run += 1;
                }
            }
        }
        let viol = o.viol.as_ref().map(|(class, detail)| {
            let sv = shrink(e, plan, &v, class);
            let o2 = run_plan(e, plan, &sv);
            let (c2, d2) = o2.viol.clone().unwrap_or((class.clone(), detail.clone()));
            Violation { class: c2.clone(), detail: d2.clone(), replay: case_replay(e, plan, &sv, seed, &c2, &d2, true) }
        });
        (o, viol)
    };
    crate::util::par_runs(total, workers, job, |i, (o, viol)| {
        let (ti, plan) = &cases[i / values_per_plan];
        let e = &ents[*ti];
        sum.evaluations += 1;
        if let Some(f) = plan.fault() {
            sum.fired(f);
            if o.fault_reached {
                sum.effective(f);
                sum.distinct.insert(format!("{}|{}", e.name, plan.to_json()));
            }
        } else {
            sum.distinct.insert(format!("{}|{}", e.name, plan.to_json()));
        }
        for k in &o.info {
            sum.probe(k);
        }
        sum.evaluations += o.shape_values_run as u64;
        shape_total += o.shape_values_run;
        if matches!(plan, Plan::SerClean { .. } | Plan::Json | Plan::PodImage | Plan::RkyvImage) {
            // the serialised *forms*: what must be byte-identical across backends
            sum.digest(e.name).push(o.log.finish());
        }
        if sum.samples.len() < 6 && i % (total / 6 + 1) == 0 {
            sum.samples.push(json!({"type": e.name, "plan": plan.to_json(), "value": gen_value(e, seed, *ti, i % values_per_plan).render()}));
        }
        if let Some(v) = viol {
            sum.violations.push(v);
        }
    });
    sum.extra.insert("types".into(), json!(ents.iter().map(|e| e.name).collect::<Vec<_>>()));
    sum.extra.insert("plans_enumerated".into(), json!(cases.len()));
    sum.extra.insert("values_per_plan".into(), json!(values_per_plan));
    sum.extra.insert("exhaustive_over_plans".into(), json!(true));
    sum.extra.insert("shape_value_round_trips".into(), json!(shape_total));
    sum
}

pub fn replay(j: &J) -> Option<(String, String)> {
    let ents = entries();
    let name = j["type"].as_str().unwrap();
    let e = ents.iter().find(|e| e.name == name).unwrap_or_else(|| {
        eprintln!("glamsim: replay names type {name} which this build does not have");
        std::process::exit(2)
    });
    let plan = Plan::from_json(&j["plan"]);
    let v = Val::from_json(&j["value"]);
    run_plan(e, &plan, &v).viol
}

/// The serialised forms of one value (token stream, serde_json text, byte image): what the
/// cross-build comparison is about. Used by the driver to pinpoint and replay a divergence.
pub fn forms_of(e: &Entry19, v: &Val) -> J {
    fn ser_tokens<T: Serialize>(x: &T) -> String {
        let (_, rec) = ser_run(x, None, false);
        rec.events
            .iter()
            .map(|e| match e {
                SerEv::TupleStruct { name, len } => format!("{name}({len})"),
                SerEv::Field(t) | SerEv::Scalar(t) => t.render(),
                SerEv::End => "End".into(),
                SerEv::UnitVariant { name, index, variant } => format!("{name}::{variant}#{index}"),
            })
            .collect::<Vec<_>>()
            .join(" ")
    }
    macro_rules! arm {
        ($( ($T:ident, $E:ty, $N:expr, $K:ident) ),*) => {
            match v {
                $( Val::$T(x) => forms_typed(x), )*
                Val::Euler(x) => json!({"tokens": ser_tokens(x), "json": serde_json::to_string(x).unwrap_or_default()}),
                _ => J::Null,
            }
        };
    }
    trait Forms {
        fn forms(&self) -> J;
    }
    fn forms_typed<T: MaybeSer>(x: &T) -> J {
        x.maybe_forms()
    }
    trait MaybeSer {
        fn maybe_forms(&self) -> J;
    }
    macro_rules! impl_maybe {
        ($($T:ident),*) => {$(
            impl MaybeSer for $T {
                fn maybe_forms(&self) -> J {
                    json!({"tokens": ser_tokens(self), "json": serde_json::to_string(self).unwrap_or_else(|e| format!("<error {e}>"))})
                }
            }
        )*};
    }
    impl_maybe!(Vec2, Vec3, Vec3A, Vec4, DVec2, DVec3, DVec4, I8Vec2, I8Vec3, I8Vec4, U8Vec2, U8Vec3, U8Vec4,
        I16Vec2, I16Vec3, I16Vec4, U16Vec2, U16Vec3, U16Vec4, IVec2, IVec3, IVec4, UVec2, UVec3, UVec4,
        I64Vec2, I64Vec3, I64Vec4, U64Vec2, U64Vec3, U64Vec4, USizeVec2, USizeVec3, USizeVec4, Quat, DQuat,
        Mat2, Mat3, Mat3A, Mat4, DMat2, DMat3, DMat4, Affine2, Affine3A, DAffine2, DAffine3, BVec2, BVec3, BVec4);
    #[cfg(not(feature = "scalar-math"))]
    impl_maybe!(BVec3A, BVec4A);
    #[cfg(feature = "scalar-math")]
    impl MaybeSer for BVec3A {
        fn maybe_forms(&self) -> J {
            J::Null
        }
    }
    #[cfg(feature = "scalar-math")]
    impl MaybeSer for BVec4A {
        fn maybe_forms(&self) -> J {
            J::Null
        }
    }
    let _ = e;
    glam_types!(arm)
}

pub fn forms(seed: u64, type_name: &str, values: usize, value_json: Option<&J>) -> J {
    let ents = entries();
    let Some(ti) = ents.iter().position(|e| e.name == type_name) else {
        return json!({"type": type_name, "absent": true, "forms": []});
    };
    let e = &ents[ti];
    let vals: Vec<Val> = match value_json {
        Some(j) => vec![Val::from_json(j)],
        None => (0..values).map(|vi| gen_value(e, seed, ti, vi)).collect(),
    };
    let fs: Vec<J> = vals.iter().map(|v| json!({"value": v.to_json(), "forms": forms_of(e, v)})).collect();
    json!({"type": type_name, "absent": false, "forms": fs})
}
