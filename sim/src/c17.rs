//! C17 — every element access path of a vector / quaternion / mask sees the same N lanes,
//! under any history of writes.
//!
//! The object under test is a mutable cell with a dozen write paths and a dozen read paths that
//! are implemented by different mechanisms (union casts, Deref overlays, pointer casts,
//! intrinsics). A seeded *history* of writes (values unique within the history, so every read is
//! attributable to one write) is materialised up front; after **every** step **all** read paths
//! are compared, bit for bit, with an executable reference model `[bits; N]`. Faults injected
//! into histories: faulted writes (bad index / short slice → must panic, object unchanged),
//! padding-lane corruption (Vec3A, BVec3A), failing fmt sink. There is no concurrency to
//! simulate here (safe Rust gives a history exactly one `&mut` owner) — this is the sequential
//! refinement core of the technique, stated as such.

#![allow(dead_code)]

use crate::glam_types;
use crate::hidden::{self, Route, ROUTES};
use crate::report::{Summary, Violation};
use crate::rng::Rng;
use crate::sink::FailingSink;
use crate::util;
use crate::val::*;
use glam::*;
use serde_json::{json, Value as J};
use std::fmt::Write as _;

#[derive(Clone, Copy, Debug, PartialEq, Eq, Hash, PartialOrd, Ord)]
pub enum WPath {
    Field,
    IndexMut,
    AsMutElem,
    AsMutWhole,
    With,
    New,
    Splat,
    FromArray,
    FromArrTrait,
    FromTuple,
    FreeFn,
    FromSlice,
    Const,
    Default,
    Copy,
    Set,
    FromVec4,
    /// `From<tuple>` with glam vectors inside the tuple: (V2, s), (V3, s), (s, V3), (V2, s, s), (V2, V2), (Vec3A, f32) ...
    Mixed,
}

#[derive(Clone, Copy, Debug, PartialEq, Eq, Hash, PartialOrd, Ord)]
pub enum RPath {
    Fields,
    Index,
    ToArray,
    AsRef,
    IntoArray,
    IntoTuple,
    WriteToSlice,
    Display,
    DisplayPrec,
    DisplayPrec0,
    DisplayPrec10,
    DisplayWidth,
    DisplayWidthPrec,
    Debug,
    DebugAlt,
    DebugPrec,
    DebugWidth,
    Eq,
    IntoVec4,
    Xyz,
    Test,
    Bitmask,
    IntoU32Arr,
}

const ALL_WPATHS: &[WPath] = &[
    WPath::Field, WPath::IndexMut, WPath::AsMutElem, WPath::AsMutWhole, WPath::With, WPath::New, WPath::Splat, WPath::FromArray,
    WPath::FromArrTrait, WPath::FromTuple, WPath::FreeFn, WPath::FromSlice, WPath::Const, WPath::Default, WPath::Copy, WPath::Set,
    WPath::FromVec4, WPath::Mixed,
];
const ALL_RPATHS: &[RPath] = &[
    RPath::Fields, RPath::Index, RPath::ToArray, RPath::AsRef, RPath::IntoArray, RPath::IntoTuple, RPath::WriteToSlice, RPath::Display,
    RPath::DisplayPrec, RPath::DisplayPrec0, RPath::DisplayPrec10, RPath::DisplayWidth, RPath::DisplayWidthPrec, RPath::Debug, RPath::DebugAlt,
    RPath::DebugPrec, RPath::DebugWidth, RPath::Eq, RPath::IntoVec4, RPath::Xyz, RPath::Test, RPath::Bitmask, RPath::IntoU32Arr,
];

fn wpath_from(s: &str) -> WPath {
    *ALL_WPATHS.iter().find(|p| format!("{p:?}") == s).expect("replay: write path")
}

/// What a read path yields: lane values, or formatted tokens (compared with the element's own
/// formatting of the model lanes), or a verdict.
pub enum ReadOut<E> {
    Lanes(Vec<E>),
    Text(String),
    Bool(bool),
    Unsupported,
}

pub trait Paths: GlamTy + core::fmt::Debug + core::fmt::Display + PartialEq {
    fn wpaths() -> &'static [WPath];
    fn rpaths() -> &'static [RPath];
    /// apply a write; `lane` selects the lane for single-lane paths, `vals` holds N (+ extra) values
    fn write(&mut self, p: WPath, lane: usize, vals: &[Self::E], off: usize);
    fn read(&self, p: RPath, aux: &[Self::E]) -> ReadOut<Self::E>;
    fn consts() -> Vec<(&'static str, Self, Vec<Self::E>)>;
    fn bad_index_write(&mut self, idx: usize, v: Self::E);
    fn short_from_slice(buf: &[Self::E]) -> Self;
}

/// Tuple constructors whose members are themselves glam vectors. `k` selects the form.
pub trait MixedCtor: GlamTy {
    fn mixed_count() -> usize {
        0
    }
    fn from_mixed(_k: usize, _v: &[Self::E]) -> Self {
        unreachable!("type has no mixed tuple constructors")
    }
}
macro_rules! mixed_none {
    ($($T:ident),*) => { $( impl MixedCtor for $T {} )* };
}
/// Members of a mixed tuple are themselves vectors with a past: besides a fresh `new`, they are produced by short write
/// histories through single-lane paths (fields, IndexMut, with_*), which on SIMD-backed members leave anything outside
/// the visible lanes stale. The visible lanes are the same in every mode.
pub const MEMBER_MODES: usize = 4;
macro_rules! member2 {
    ($V:ident, $m:expr, $a:expr, $b:expr) => {{
        let (a, b) = ($a, $b);
        match $m {
            0 => $V::new(a, b),
            1 => { let mut t = $V::new(b, a); t.x = a; t.y = b; t }
            2 => { let mut t = $V::splat(b); t[0] = a; t }
            _ => $V::splat(a).with_y(b),
        }
    }};
}
macro_rules! member3 {
    ($V:ident, $m:expr, $a:expr, $b:expr, $c:expr) => {{
        let (a, b, c) = ($a, $b, $c);
        match $m {
            0 => $V::new(a, b, c),
            1 => { let mut t = $V::new(c, a, b); t.z = c; t.x = a; t.y = b; t }
            2 => { let mut t = $V::splat(a); t[2] = c; t[1] = b; t }
            _ => $V::splat(b).with_z(c).with_x(a),
        }
    }};
}
macro_rules! mixed3 {
    ($T:ident, $V2:ident) => {
        impl MixedCtor for $T {
            fn mixed_count() -> usize { MEMBER_MODES }
            fn from_mixed(k: usize, v: &[Self::E]) -> Self { <$T>::from((member2!($V2, k % MEMBER_MODES, v[0], v[1]), v[2])) }
        }
    };
}
macro_rules! mixed4 {
    ($T:ident, $V2:ident, $V3:ident $(, $V3A:ident)?) => {
        impl MixedCtor for $T {
            fn mixed_count() -> usize { (4 $( + { let _ = stringify!($V3A); 2 } )?) * MEMBER_MODES }
            fn from_mixed(k: usize, v: &[Self::E]) -> Self {
                let m = k % MEMBER_MODES;
                match k / MEMBER_MODES {
                    0 => <$T>::from((member3!($V3, m, v[0], v[1], v[2]), v[3])),
                    1 => <$T>::from((v[0], member3!($V3, m, v[1], v[2], v[3]))),
                    2 => <$T>::from((member2!($V2, m, v[0], v[1]), v[2], v[3])),
                    3 => <$T>::from((member2!($V2, m, v[0], v[1]), member2!($V2, (m + 1) % MEMBER_MODES, v[2], v[3]))),
                    $( 4 => <$T>::from((member3!($V3A, m, v[0], v[1], v[2]), v[3])),
                       5 => <$T>::from((v[0], member3!($V3A, m, v[1], v[2], v[3]))), )?
                    _ => unreachable!(),
                }
            }
        }
    };
}
mixed_none!(Vec2, DVec2, I8Vec2, U8Vec2, I16Vec2, U16Vec2, IVec2, UVec2, I64Vec2, U64Vec2, USizeVec2, Quat, DQuat, BVec2, BVec3, BVec4, BVec3A, BVec4A);
mixed3!(Vec3, Vec2);
mixed3!(Vec3A, Vec2);
mixed3!(DVec3, DVec2);
mixed3!(I8Vec3, I8Vec2);
mixed3!(U8Vec3, U8Vec2);
mixed3!(I16Vec3, I16Vec2);
mixed3!(U16Vec3, U16Vec2);
mixed3!(IVec3, IVec2);
mixed3!(UVec3, UVec2);
mixed3!(I64Vec3, I64Vec2);
mixed3!(U64Vec3, U64Vec2);
mixed3!(USizeVec3, USizeVec2);
mixed4!(Vec4, Vec2, Vec3, Vec3A);
mixed4!(DVec4, DVec2, DVec3);
mixed4!(I8Vec4, I8Vec2, I8Vec3);
mixed4!(U8Vec4, U8Vec2, U8Vec3);
mixed4!(I16Vec4, I16Vec2, I16Vec3);
mixed4!(U16Vec4, U16Vec2, U16Vec3);
mixed4!(IVec4, IVec2, IVec3);
mixed4!(UVec4, UVec2, UVec3);
mixed4!(I64Vec4, I64Vec2, I64Vec3);
mixed4!(U64Vec4, U64Vec2, U64Vec3);
mixed4!(USizeVec4, USizeVec2, USizeVec3);

macro_rules! lane_get {
    ($s:expr, $l:expr, 2) => { match $l { 0 => $s.x, _ => $s.y } };
    ($s:expr, $l:expr, 3) => { match $l { 0 => $s.x, 1 => $s.y, _ => $s.z } };
    ($s:expr, $l:expr, 4) => { match $l { 0 => $s.x, 1 => $s.y, 2 => $s.z, _ => $s.w } };
}
macro_rules! lane_set {
    ($s:expr, $l:expr, $v:expr, 2) => { match $l { 0 => $s.x = $v, _ => $s.y = $v } };
    ($s:expr, $l:expr, $v:expr, 3) => { match $l { 0 => $s.x = $v, 1 => $s.y = $v, _ => $s.z = $v } };
    ($s:expr, $l:expr, $v:expr, 4) => { match $l { 0 => $s.x = $v, 1 => $s.y = $v, 2 => $s.z = $v, _ => $s.w = $v } };
}
macro_rules! with_lane {
    ($s:expr, $l:expr, $v:expr, 2) => { match $l { 0 => $s.with_x($v), _ => $s.with_y($v) } };
    ($s:expr, $l:expr, $v:expr, 3) => { match $l { 0 => $s.with_x($v), 1 => $s.with_y($v), _ => $s.with_z($v) } };
    ($s:expr, $l:expr, $v:expr, 4) => { match $l { 0 => $s.with_x($v), 1 => $s.with_y($v), 2 => $s.with_z($v), _ => $s.with_w($v) } };
}
macro_rules! ctor_n {
    ($f:expr, $v:expr, 2) => { $f($v[0], $v[1]) };
    ($f:expr, $v:expr, 3) => { $f($v[0], $v[1], $v[2]) };
    ($f:expr, $v:expr, 4) => { $f($v[0], $v[1], $v[2], $v[3]) };
}
macro_rules! tuple_n {
    ($v:expr, 2) => { ($v[0], $v[1]) };
    ($v:expr, 3) => { ($v[0], $v[1], $v[2]) };
    ($v:expr, 4) => { ($v[0], $v[1], $v[2], $v[3]) };
}
macro_rules! tuple_ty {
    ($E:ty, 2) => { ($E, $E) };
    ($E:ty, 3) => { ($E, $E, $E) };
    ($E:ty, 4) => { ($E, $E, $E, $E) };
}
macro_rules! tuple_to_vec {
    ($t:expr, 2) => { vec![$t.0, $t.1] };
    ($t:expr, 3) => { vec![$t.0, $t.1, $t.2] };
    ($t:expr, 4) => { vec![$t.0, $t.1, $t.2, $t.3] };
}

const CANARY_COUNT: usize = 3;

macro_rules! common_reads {
    ($self:ident, $p:ident, $aux:ident, $T:ident, $E:ty, $N:tt) => {
        match $p {
            RPath::Fields => ReadOut::Lanes((0..$N).map(|l| lane_get!($self, l, $N)).collect()),
            RPath::ToArray => ReadOut::Lanes($self.to_array().to_vec()),
            RPath::AsRef => {
                let r: &[$E; $N] = $self.as_ref();
                ReadOut::Lanes(r.to_vec())
            }
            RPath::IntoArray => {
                let a: [$E; $N] = (*$self).into();
                ReadOut::Lanes(a.to_vec())
            }
            RPath::IntoTuple => {
                let t: tuple_ty!($E, $N) = (*$self).into();
                ReadOut::Lanes(tuple_to_vec!(t, $N))
            }
            RPath::WriteToSlice => {
                // destination bracketed by canaries (aux[0] is a value no lane holds)
                let c = $aux[0];
                let mut buf = vec![c; $N + 2 * CANARY_COUNT];
                $self.write_to_slice(&mut buf[CANARY_COUNT..]);
                let intact = buf[..CANARY_COUNT].iter().chain(buf[CANARY_COUNT + $N..].iter()).all(|e| e.to_bits64() == c.to_bits64());
                if !intact {
                    ReadOut::Bool(false)
                } else {
                    ReadOut::Lanes(buf[CANARY_COUNT..CANARY_COUNT + $N].to_vec())
                }
            }
            RPath::Display => ReadOut::Text(format!("{}", $self)),
            RPath::DisplayPrec => ReadOut::Text(format!("{:.3}", $self)),
            RPath::DisplayPrec0 => ReadOut::Text(format!("{:.0}", $self)),
            RPath::DisplayPrec10 => ReadOut::Text(format!("{:.10}", $self)),
            // a field width may be honoured or ignored (glam ignores it); either way every lane must be printed, so the
            // whitespace-separated tokens must be the lanes' own formatting
            RPath::DisplayWidth => ReadOut::Text(format!("{:9}", $self)),
            RPath::DisplayWidthPrec => ReadOut::Text(format!("{:>14.3}", $self)),
            RPath::DebugWidth => ReadOut::Text(format!("{:11?}", $self)),
            RPath::Debug => ReadOut::Text(format!("{:?}", $self)),
            RPath::DebugAlt => ReadOut::Text(format!("{:#?}", $self)),
            RPath::DebugPrec => ReadOut::Text(format!("{:.2?}", $self)),
            _ => ReadOut::Unsupported,
        }
    };
}

macro_rules! impl_vec_paths {
    ($T:ident, $E:ty, $N:tt, $free:ident, [$(($cn:ident, $cv:expr)),*]) => {
        impl Paths for $T {
            fn wpaths() -> &'static [WPath] {
                &[WPath::Field, WPath::IndexMut, WPath::AsMutElem, WPath::AsMutWhole, WPath::With, WPath::New, WPath::Splat,
                  WPath::FromArray, WPath::FromArrTrait, WPath::FromTuple, WPath::FreeFn, WPath::FromSlice, WPath::Const,
                  WPath::Default, WPath::Copy]
            }
            fn rpaths() -> &'static [RPath] {
                &[RPath::Fields, RPath::Index, RPath::ToArray, RPath::AsRef, RPath::IntoArray, RPath::IntoTuple, RPath::WriteToSlice,
                  RPath::Display, RPath::DisplayPrec, RPath::DisplayPrec0, RPath::DisplayPrec10, RPath::DisplayWidth, RPath::DisplayWidthPrec,
                  RPath::Debug, RPath::DebugAlt, RPath::DebugPrec, RPath::DebugWidth, RPath::Eq]
            }
            fn write(&mut self, p: WPath, lane: usize, v: &[$E], off: usize) {
                match p {
                    WPath::Field => lane_set!(self, lane, v[0], $N),
                    WPath::IndexMut => self[lane] = v[0],
                    WPath::AsMutElem => { let r: &mut [$E; $N] = self.as_mut(); r[lane] = v[0]; }
                    WPath::AsMutWhole => { let r: &mut [$E; $N] = self.as_mut(); *r = <[$E; $N]>::try_from(&v[..$N]).unwrap(); }
                    WPath::With => *self = with_lane!((*self), lane, v[0], $N),
                    WPath::New => *self = ctor_n!($T::new, v, $N),
                    WPath::Splat => *self = $T::splat(v[0]),
                    WPath::FromArray => *self = $T::from_array(<[$E; $N]>::try_from(&v[..$N]).unwrap()),
                    WPath::FromArrTrait => *self = <$T as From<[$E; $N]>>::from(<[$E; $N]>::try_from(&v[..$N]).unwrap()),
                    WPath::FromTuple => *self = <$T as From<tuple_ty!($E, $N)>>::from(tuple_n!(v, $N)),
                    WPath::FreeFn => *self = ctor_n!(glam::$free, v, $N),
                    WPath::FromSlice => {
                        // `v` = off junk values, then the N payload values, then trailing junk
                        *self = $T::from_slice(&v[off..]);
                    }
                    WPath::Const => *self = Self::consts()[lane % Self::consts().len()].1,
                    WPath::Default => *self = <$T as Default>::default(),
                    WPath::Copy => { let y = *self; let z = y.clone(); *self = z; }
                    _ => unreachable!("write path not supported by this type"),
                }
            }
            fn read(&self, p: RPath, aux: &[$E]) -> ReadOut<$E> {
                match p {
                    RPath::Index => ReadOut::Lanes((0..$N).map(|l| self[l]).collect()),
                    RPath::Eq => {
                        // equal to a value rebuilt from what `to_array` says, unequal once a lane differs
                        let a = self.to_array();
                        let same = ctor_n!($T::new, a, $N);
                        let mut b = a;
                        b[aux.len() % $N] = aux[0];
                        let other = ctor_n!($T::new, b, $N);
                        ReadOut::Bool(*self == same && !(*self != same) && (*self != other) == (a[aux.len() % $N] != aux[0]))
                    }
                    p => common_reads!(self, p, aux, $T, $E, $N),
                }
            }
            fn consts() -> Vec<(&'static str, Self, Vec<$E>)> {
                let mut c = vec![$( (stringify!($cn), $T::$cn, $cv) ),*];
                // AXES[i] is documented as the unit axes: lane i one, the others zero
                let one = c[1].2[0];
                let zero = c[0].2[0];
                for (i, a) in $T::AXES.iter().enumerate() {
                    let mut m = vec![zero; $N];
                    m[i] = one;
                    c.push(("AXES[i]", *a, m));
                }
                c
            }
            fn bad_index_write(&mut self, idx: usize, v: $E) { self[idx] = v; }
            fn short_from_slice(buf: &[$E]) -> Self { $T::from_slice(buf) }
        }
    };
}

macro_rules! unit_vec {
    ($E:ty, $N:expr, $i:expr, $one:expr, $zero:expr) => {{
        let mut v = vec![$zero; $N];
        v[$i] = $one;
        v
    }};
}

macro_rules! vec_family_unsigned {
    ($E:ty, $V2:ident, $V3:ident, $V4:ident, $f2:ident, $f3:ident, $f4:ident, $one:expr, $zero:expr) => {
        impl_vec_paths!($V2, $E, 2, $f2, [(ZERO, vec![$zero; 2]), (ONE, vec![$one; 2]), (MIN, vec![<$E>::MIN; 2]), (MAX, vec![<$E>::MAX; 2]),
            (X, unit_vec!($E, 2, 0, $one, $zero)), (Y, unit_vec!($E, 2, 1, $one, $zero))]);
        impl_vec_paths!($V3, $E, 3, $f3, [(ZERO, vec![$zero; 3]), (ONE, vec![$one; 3]), (MIN, vec![<$E>::MIN; 3]), (MAX, vec![<$E>::MAX; 3]),
            (X, unit_vec!($E, 3, 0, $one, $zero)), (Y, unit_vec!($E, 3, 1, $one, $zero)), (Z, unit_vec!($E, 3, 2, $one, $zero))]);
        impl_vec_paths!($V4, $E, 4, $f4, [(ZERO, vec![$zero; 4]), (ONE, vec![$one; 4]), (MIN, vec![<$E>::MIN; 4]), (MAX, vec![<$E>::MAX; 4]),
            (X, unit_vec!($E, 4, 0, $one, $zero)), (Y, unit_vec!($E, 4, 1, $one, $zero)), (Z, unit_vec!($E, 4, 2, $one, $zero)),
            (W, unit_vec!($E, 4, 3, $one, $zero))]);
    };
}
macro_rules! vec_family_signed {
    ($E:ty, $V2:ident, $V3:ident, $V4:ident, $f2:ident, $f3:ident, $f4:ident, $one:expr, $zero:expr, [$F:ty]) => {
        vec_family_signed!(@go $E, $V2, $V3, $V4, $f2, $f3, $f4, $one, $zero,
            [, (NAN, vec![<$F>::NAN; 2]), (INFINITY, vec![<$F>::INFINITY; 2]), (NEG_INFINITY, vec![<$F>::NEG_INFINITY; 2])],
            [, (NAN, vec![<$F>::NAN; 3]), (INFINITY, vec![<$F>::INFINITY; 3]), (NEG_INFINITY, vec![<$F>::NEG_INFINITY; 3])],
            [, (NAN, vec![<$F>::NAN; 4]), (INFINITY, vec![<$F>::INFINITY; 4]), (NEG_INFINITY, vec![<$F>::NEG_INFINITY; 4])]);
    };
    ($E:ty, $V2:ident, $V3:ident, $V4:ident, $f2:ident, $f3:ident, $f4:ident, $one:expr, $zero:expr, []) => {
        vec_family_signed!(@go $E, $V2, $V3, $V4, $f2, $f3, $f4, $one, $zero, [], [], []);
    };
    (@go $E:ty, $V2:ident, $V3:ident, $V4:ident, $f2:ident, $f3:ident, $f4:ident, $one:expr, $zero:expr, [$($x2:tt)*], [$($x3:tt)*], [$($x4:tt)*]) => {
        impl_vec_paths!($V2, $E, 2, $f2, [(ZERO, vec![$zero; 2]), (ONE, vec![$one; 2]), (NEG_ONE, vec![-$one; 2]), (MIN, vec![<$E>::MIN; 2]),
            (MAX, vec![<$E>::MAX; 2]), (X, unit_vec!($E, 2, 0, $one, $zero)), (Y, unit_vec!($E, 2, 1, $one, $zero)),
            (NEG_X, unit_vec!($E, 2, 0, -$one, $zero)), (NEG_Y, unit_vec!($E, 2, 1, -$one, $zero)) $($x2)*]);
        impl_vec_paths!($V3, $E, 3, $f3, [(ZERO, vec![$zero; 3]), (ONE, vec![$one; 3]), (NEG_ONE, vec![-$one; 3]), (MIN, vec![<$E>::MIN; 3]),
            (MAX, vec![<$E>::MAX; 3]), (X, unit_vec!($E, 3, 0, $one, $zero)), (Y, unit_vec!($E, 3, 1, $one, $zero)),
            (Z, unit_vec!($E, 3, 2, $one, $zero)), (NEG_X, unit_vec!($E, 3, 0, -$one, $zero)), (NEG_Y, unit_vec!($E, 3, 1, -$one, $zero)),
            (NEG_Z, unit_vec!($E, 3, 2, -$one, $zero)) $($x3)*]);
        impl_vec_paths!($V4, $E, 4, $f4, [(ZERO, vec![$zero; 4]), (ONE, vec![$one; 4]), (NEG_ONE, vec![-$one; 4]), (MIN, vec![<$E>::MIN; 4]),
            (MAX, vec![<$E>::MAX; 4]), (X, unit_vec!($E, 4, 0, $one, $zero)), (Y, unit_vec!($E, 4, 1, $one, $zero)),
            (Z, unit_vec!($E, 4, 2, $one, $zero)), (W, unit_vec!($E, 4, 3, $one, $zero)), (NEG_X, unit_vec!($E, 4, 0, -$one, $zero)),
            (NEG_Y, unit_vec!($E, 4, 1, -$one, $zero)), (NEG_Z, unit_vec!($E, 4, 2, -$one, $zero)), (NEG_W, unit_vec!($E, 4, 3, -$one, $zero)) $($x4)*]);
    };
}

vec_family_signed!(f32, Vec2, Vec3, Vec4, vec2, vec3, vec4, 1.0f32, 0.0f32, [f32]);
vec_family_signed!(f64, DVec2, DVec3, DVec4, dvec2, dvec3, dvec4, 1.0f64, 0.0f64, [f64]);
impl_vec_paths!(Vec3A, f32, 3, vec3a, [(ZERO, vec![0.0; 3]), (ONE, vec![1.0; 3]), (NEG_ONE, vec![-1.0; 3]), (MIN, vec![f32::MIN; 3]),
    (MAX, vec![f32::MAX; 3]), (NAN, vec![f32::NAN; 3]), (INFINITY, vec![f32::INFINITY; 3]), (NEG_INFINITY, vec![f32::NEG_INFINITY; 3]),
    (X, vec![1.0, 0.0, 0.0]), (Y, vec![0.0, 1.0, 0.0]), (Z, vec![0.0, 0.0, 1.0]), (NEG_X, vec![-1.0, 0.0, 0.0]),
    (NEG_Y, vec![0.0, -1.0, 0.0]), (NEG_Z, vec![0.0, 0.0, -1.0])]);
vec_family_signed!(i8, I8Vec2, I8Vec3, I8Vec4, i8vec2, i8vec3, i8vec4, 1i8, 0i8, []);
vec_family_signed!(i16, I16Vec2, I16Vec3, I16Vec4, i16vec2, i16vec3, i16vec4, 1i16, 0i16, []);
vec_family_signed!(i32, IVec2, IVec3, IVec4, ivec2, ivec3, ivec4, 1i32, 0i32, []);
vec_family_signed!(i64, I64Vec2, I64Vec3, I64Vec4, i64vec2, i64vec3, i64vec4, 1i64, 0i64, []);
vec_family_unsigned!(u8, U8Vec2, U8Vec3, U8Vec4, u8vec2, u8vec3, u8vec4, 1u8, 0u8);
vec_family_unsigned!(u16, U16Vec2, U16Vec3, U16Vec4, u16vec2, u16vec3, u16vec4, 1u16, 0u16);
vec_family_unsigned!(u32, UVec2, UVec3, UVec4, uvec2, uvec3, uvec4, 1u32, 0u32);
vec_family_unsigned!(u64, U64Vec2, U64Vec3, U64Vec4, u64vec2, u64vec3, u64vec4, 1u64, 0u64);
vec_family_unsigned!(usize, USizeVec2, USizeVec3, USizeVec4, usizevec2, usizevec3, usizevec4, 1usize, 0usize);

macro_rules! impl_quat_paths {
    ($T:ident, $E:ty, $free:ident, $V4:ident, $V3:ident) => {
        impl Paths for $T {
            fn wpaths() -> &'static [WPath] {
                &[WPath::Field, WPath::New, WPath::FromArray, WPath::FromVec4, WPath::FreeFn, WPath::FromSlice, WPath::Const, WPath::Default, WPath::Copy]
            }
            fn rpaths() -> &'static [RPath] {
                &[RPath::Fields, RPath::ToArray, RPath::AsRef, RPath::IntoArray, RPath::IntoTuple, RPath::IntoVec4, RPath::Xyz,
                  RPath::WriteToSlice, RPath::Display, RPath::DisplayPrec, RPath::DisplayPrec0, RPath::DisplayPrec10, RPath::DisplayWidth,
                  RPath::DisplayWidthPrec, RPath::Debug, RPath::DebugAlt, RPath::DebugPrec, RPath::DebugWidth, RPath::Eq]
            }
            fn write(&mut self, p: WPath, lane: usize, v: &[$E], off: usize) {
                match p {
                    WPath::Field => lane_set!(self, lane, v[0], 4),
                    WPath::New => *self = $T::from_xyzw(v[0], v[1], v[2], v[3]),
                    WPath::FromArray => *self = $T::from_array([v[0], v[1], v[2], v[3]]),
                    WPath::FromVec4 => *self = $T::from_vec4($V4::new(v[0], v[1], v[2], v[3])),
                    WPath::FreeFn => *self = glam::$free(v[0], v[1], v[2], v[3]),
                    WPath::FromSlice => *self = $T::from_slice(&v[off..]),
                    WPath::Const => *self = Self::consts()[lane % Self::consts().len()].1,
                    WPath::Default => *self = <$T as Default>::default(),
                    WPath::Copy => { let y = *self; let z = y.clone(); *self = z; }
                    _ => unreachable!("write path not supported by quaternions"),
                }
            }
            fn read(&self, p: RPath, aux: &[$E]) -> ReadOut<$E> {
                match p {
                    RPath::IntoVec4 => { let v: $V4 = (*self).into(); ReadOut::Lanes(v.to_array().to_vec()) }
                    RPath::Xyz => { let v: $V3 = self.xyz(); let mut l = v.to_array().to_vec(); l.push(self.w); ReadOut::Lanes(l) }
                    RPath::Eq => {
                        let a = self.to_array();
                        let same = $T::from_array(a);
                        let mut b = a;
                        b[aux.len() % 4] = aux[0];
                        let other = $T::from_array(b);
                        ReadOut::Bool(*self == same && (*self != other) == (a[aux.len() % 4] != aux[0]))
                    }
                    p => common_reads!(self, p, aux, $T, $E, 4),
                }
            }
            fn consts() -> Vec<(&'static str, Self, Vec<$E>)> {
                vec![("IDENTITY", $T::IDENTITY, vec![0.0, 0.0, 0.0, 1.0]), ("NAN", $T::NAN, vec![<$E>::NAN; 4])]
            }
            fn bad_index_write(&mut self, _idx: usize, _v: $E) { panic!("index out of bounds (quaternions have no IndexMut; harness placeholder)") }
            fn short_from_slice(buf: &[$E]) -> Self { $T::from_slice(buf) }
        }
    };
}
impl_quat_paths!(Quat, f32, quat, Vec4, Vec3);
impl_quat_paths!(DQuat, f64, dquat, DVec4, DVec3);

macro_rules! bvec_ctor {
    ($T:ident, $v:expr, 2) => { $T::new($v[0], $v[1]) };
    ($T:ident, $v:expr, 3) => { $T::new($v[0], $v[1], $v[2]) };
    ($T:ident, $v:expr, 4) => { $T::new($v[0], $v[1], $v[2], $v[3]) };
}
macro_rules! impl_mask_paths {
    ($T:ident, $N:tt, $free:ident, fields=$hasf:tt) => {
        impl Paths for $T {
            fn wpaths() -> &'static [WPath] {
                impl_mask_paths!(@w $hasf)
            }
            fn rpaths() -> &'static [RPath] {
                impl_mask_paths!(@r $hasf)
            }
            fn write(&mut self, p: WPath, lane: usize, v: &[bool], _off: usize) {
                match p {
                    WPath::Field => impl_mask_paths!(@setf self, lane, v[0], $N, $hasf),
                    WPath::Set => self.set(lane, v[0]),
                    WPath::New => *self = bvec_ctor!($T, v, $N),
                    WPath::Splat => *self = $T::splat(v[0]),
                    WPath::FromArray => *self = $T::from_array(<[bool; $N]>::try_from(&v[..$N]).unwrap()),
                    WPath::FromArrTrait => *self = <$T as From<[bool; $N]>>::from(<[bool; $N]>::try_from(&v[..$N]).unwrap()),
                    WPath::FreeFn => *self = ctor_n!(glam::$free, v, $N),
                    WPath::Const => *self = Self::consts()[lane % 2].1,
                    WPath::Default => *self = <$T as Default>::default(),
                    WPath::Copy => { let y = *self; let z = y.clone(); *self = z; }
                    _ => unreachable!("write path not supported by masks"),
                }
            }
            fn read(&self, p: RPath, aux: &[bool]) -> ReadOut<bool> {
                match p {
                    RPath::Fields => impl_mask_paths!(@getf self, $N, $hasf),
                    RPath::Test => ReadOut::Lanes((0..$N).map(|l| self.test(l)).collect()),
                    RPath::Bitmask => { let m = self.bitmask(); if m >> $N != 0 { ReadOut::Bool(false) } else { ReadOut::Lanes((0..$N).map(|l| (m >> l) & 1 == 1).collect()) } }
                    RPath::IntoArray => { let a: [bool; $N] = (*self).into(); ReadOut::Lanes(a.to_vec()) }
                    RPath::IntoU32Arr => {
                        let a: [u32; $N] = (*self).into();
                        if a.iter().any(|e| *e != 0 && *e != u32::MAX) { ReadOut::Bool(false) } else { ReadOut::Lanes(a.iter().map(|e| *e == u32::MAX).collect()) }
                    }
                    RPath::Display => ReadOut::Text(format!("{}", self)),
                    RPath::DisplayWidth => ReadOut::Text(format!("{:9}", self)),
                    RPath::Debug => ReadOut::Text(format!("{:?}", self)),
                    RPath::DebugAlt => ReadOut::Text(format!("{:#?}", self)),
                    RPath::DebugWidth => ReadOut::Text(format!("{:11?}", self)),
                    RPath::Eq => {
                        let a: [bool; $N] = (*self).into();
                        let same = $T::from_array(a);
                        let mut b = a;
                        b[aux.len() % $N] = !b[aux.len() % $N];
                        let other = $T::from_array(b);
                        ReadOut::Bool(*self == same && *self != other && self.any() == a.iter().any(|x| *x) && self.all() == a.iter().all(|x| *x))
                    }
                    _ => ReadOut::Unsupported,
                }
            }
            fn consts() -> Vec<(&'static str, Self, Vec<bool>)> {
                vec![("FALSE", $T::FALSE, vec![false; $N]), ("TRUE", $T::TRUE, vec![true; $N])]
            }
            fn bad_index_write(&mut self, idx: usize, v: bool) { self.set(idx, v) }
            fn short_from_slice(_buf: &[bool]) -> Self { panic!("masks have no from_slice (harness placeholder)") }
        }
    };
    (@w y) => { &[WPath::Field, WPath::Set, WPath::New, WPath::Splat, WPath::FromArray, WPath::FromArrTrait, WPath::FreeFn, WPath::Const, WPath::Default, WPath::Copy] };
    (@w n) => { &[WPath::Set, WPath::New, WPath::Splat, WPath::FromArray, WPath::FromArrTrait, WPath::FreeFn, WPath::Const, WPath::Default, WPath::Copy] };
    (@r y) => { &[RPath::Fields, RPath::Test, RPath::Bitmask, RPath::IntoArray, RPath::IntoU32Arr, RPath::Display, RPath::DisplayWidth, RPath::Debug, RPath::DebugAlt, RPath::DebugWidth, RPath::Eq] };
    (@r n) => { &[RPath::Test, RPath::Bitmask, RPath::IntoArray, RPath::IntoU32Arr, RPath::Display, RPath::DisplayWidth, RPath::Debug, RPath::DebugAlt, RPath::DebugWidth, RPath::Eq] };
    (@setf $s:ident, $l:expr, $v:expr, $N:tt, y) => { lane_set!($s, $l, $v, $N) };
    (@setf $s:ident, $l:expr, $v:expr, $N:tt, n) => { unreachable!() };
    (@getf $s:ident, $N:tt, y) => { ReadOut::Lanes((0..$N).map(|l| lane_get!($s, l, $N)).collect()) };
    (@getf $s:ident, $N:tt, n) => { ReadOut::Unsupported };
}
impl_mask_paths!(BVec2, 2, bvec2, fields = y);
impl_mask_paths!(BVec3, 3, bvec3, fields = y);
impl_mask_paths!(BVec4, 4, bvec4, fields = y);
#[cfg(not(feature = "scalar-math"))]
impl_mask_paths!(BVec3A, 3, bvec3a, fields = n);
#[cfg(not(feature = "scalar-math"))]
impl_mask_paths!(BVec4A, 4, bvec4a, fields = n);
// under scalar-math the aligned masks are plain structs with public fields like the others
#[cfg(feature = "scalar-math")]
impl_mask_paths!(BVec3A, 3, bvec3a, fields = n);
#[cfg(feature = "scalar-math")]
impl_mask_paths!(BVec4A, 4, bvec4a, fields = n);

// ---------------------------------------------------------------------------------------------
// histories

#[derive(Clone, Debug)]
pub enum Step {
    /// write through `path`; `vals` are raw element bits (layout depends on the path)
    Write { path: WPath, lane: usize, vals: Vec<u64>, off: usize },
    /// IndexMut / set with an out-of-range index: must panic, object unchanged
    BadIndex { idx: usize, val: u64 },
    /// from_slice on a slice shorter than N: must panic, object unchanged
    ShortSlice { len: usize, vals: Vec<u64> },
    /// padding-lane corruption between steps (Vec3A / BVec3A on SIMD builds)
    Poison { bits: u32, route: usize },
    /// Display / Debug into a sink that fails at write k
    Sink { k: usize, debug: bool },
}

fn step_json(s: &Step) -> J {
    let hex = |v: &Vec<u64>| v.iter().map(|b| format!("0x{b:x}")).collect::<Vec<_>>();
    match s {
        Step::Write { path, lane, vals, off } => json!({"op": "write", "path": format!("{path:?}"), "lane": lane, "vals": hex(vals), "off": off}),
        Step::BadIndex { idx, val } => json!({"op": "fault:BAD_INDEX", "idx": *idx as i64, "val": format!("0x{val:x}")}),
        Step::ShortSlice { len, vals } => json!({"op": "fault:SHORT_SLICE", "len": len, "vals": hex(vals)}),
        Step::Poison { bits, route } => json!({"op": "fault:POISON_LANE3", "bits": format!("0x{bits:08x}"), "route": route}),
        Step::Sink { k, debug } => json!({"op": "fault:SINK_ERR", "k": k, "debug": debug}),
    }
}
fn step_from(j: &J) -> Step {
    let hexv = |x: &J| -> Vec<u64> { x.as_array().unwrap().iter().map(|s| util::parse_hex(s.as_str().unwrap())).collect() };
    match j["op"].as_str().unwrap() {
        "write" => Step::Write {
            path: wpath_from(j["path"].as_str().unwrap()),
            lane: j["lane"].as_u64().unwrap() as usize,
            vals: hexv(&j["vals"]),
            off: j["off"].as_u64().unwrap() as usize,
        },
        "fault:BAD_INDEX" => Step::BadIndex { idx: j["idx"].as_i64().unwrap() as usize, val: util::parse_hex(j["val"].as_str().unwrap()) },
        "fault:SHORT_SLICE" => Step::ShortSlice { len: j["len"].as_u64().unwrap() as usize, vals: hexv(&j["vals"]) },
        "fault:POISON_LANE3" => Step::Poison { bits: util::parse_hex(j["bits"].as_str().unwrap()) as u32, route: j["route"].as_u64().unwrap() as usize },
        _ => Step::Sink { k: j["k"].as_u64().unwrap() as usize, debug: j["debug"].as_bool().unwrap() },
    }
}

/// A value no other write of the history produced: lane reads are attributable to one write.
fn uniq(e: Elem, c: u64) -> u64 {
    match e {
        Elem::Bool => c & 1,
        Elem::F32 => {
            let c32 = (c & 0x3f_ffff) as u32;
            let b = match c % 6 {
                0 => (c32 as f32 + 0.5).to_bits(),
                1 => 0x7FC0_0000 | c32,           // quiet NaN, payload = counter
                2 => (-(c32 as f32) - 0.25).to_bits(),
                3 => c32 | 1,                     // subnormal
                4 => if c < 6 { 0x8000_0000 } else { ((c32 as f32) * 1.0e10).to_bits() },
                _ => 0x7F80_0000 | c32 | 1,       // signalling NaN, payload = counter
            };
            b as u64
        }
        Elem::F64 => {
            let cc = c & 0xffff_ffff;
            match c % 6 {
                0 => (cc as f64 + 0.5).to_bits(),
                1 => 0x7FF8_0000_0000_0000 | cc,
                2 => (-(cc as f64) - 0.25).to_bits(),
                3 => cc | 1,
                4 => if c < 6 { 0x8000_0000_0000_0000 } else { ((cc as f64) * 1.0e100).to_bits() },
                _ => 0x7FF0_0000_0000_0000 | cc | 1,
            }
        }
        Elem::I8 => (((c % 251) as i64 - 125) as i8) as u64,
        Elem::U8 => (c % 251 + 2) as u8 as u64,
        Elem::I16 => ((c as i64 * 37 - 5000) as i16) as u64,
        Elem::U16 => (c * 37 + 2) as u16 as u64,
        Elem::I32 => ((c as i64 * 100_003 - 1_000_000_000) as i32) as u64,
        Elem::U32 => (c * 100_003 + 2) as u32 as u64,
        Elem::I64 => (c as i64 * 1_000_000_007 - (1 << 40)) as u64,
        Elem::U64 | Elem::Usize => c.wrapping_mul(0x9E37_79B9_7F4A_7C15) | 2,
    }
}

/// Small set of edge values per element kind (the (old, new) pair grid runs over its square).
pub fn specials(e: Elem) -> Vec<u64> {
    match e {
        Elem::Bool => vec![0, 1],
        Elem::F32 => vec![0x0000_0000, 0x8000_0000, 0x3F80_0000, 0xBF80_0000, 0x7FC0_0000, 0x7FC0_1234, 0x7FA0_0001, 0x7F80_0000, 0xFF80_0000,
                          0x7F7F_FFFF, 0x0000_0001, 0x3F80_0001,
                          // 0.1 (full mantissa), negative NaN with high payload bits, largest negative subnormal
                          0x3DCC_CCCD, 0xFFD5_5555, 0x807F_FFFF],
        Elem::F64 => vec![0x0000_0000_0000_0000, 0x8000_0000_0000_0000, 0x3FF0_0000_0000_0000, 0xBFF0_0000_0000_0000, 0x7FF8_0000_0000_0000,
                          0x7FF8_0000_0000_1234, 0x7FF4_0000_0000_0001, 0x7FF0_0000_0000_0000, 0xFFF0_0000_0000_0000, 0x7FEF_FFFF_FFFF_FFFF,
                          0x0000_0000_0000_0001, 0x3FF0_0000_0000_0001,
                          0x3FB9_9999_9999_999A, 0xFFFD_5555_5555_5555, 0x800F_FFFF_FFFF_FFFF],
        _ => {
            let mut r = Rng::new(0, "specials", 0);
            let mut v: Vec<u64> = (0..6).map(|i| gen_scalar_bits(e, &mut r, Cls::Lattice(i))).collect();
            // two fixed patterns with every byte in use
            v.extend((0..2).map(|_| gen_scalar_bits(e, &mut r, Cls::RandomBits)));
            v
        }
    }
}

/// The systematic part: for every single-lane write path x lane x (old, new) pair of edge values, a two-step history
/// (whole-value write, then the single-lane write); and for every whole-value write path x lane x edge value a one-step
/// history. Guarantees the pair grid instead of leaving it to sampling.
pub fn grid_histories<T: Paths + MixedCtor>() -> Vec<Vec<Step>> {
    let n = T::N;
    let e = T::E::KIND;
    let sp = specials(e);
    let base: Vec<u64> = (0..n).map(|i| uniq(e, 600 + 6 * i as u64)).collect();
    let wp = T::wpaths();
    let whole: Vec<WPath> = wp
        .iter()
        .copied()
        .filter(|p| matches!(p, WPath::New | WPath::FromArray | WPath::FromArrTrait | WPath::FromTuple | WPath::FreeFn | WPath::FromSlice | WPath::AsMutWhole | WPath::FromVec4))
        .collect();
    let single: Vec<WPath> = wp.iter().copied().filter(|p| matches!(p, WPath::Field | WPath::IndexMut | WPath::AsMutElem | WPath::With | WPath::Set)).collect();
    let mut out = Vec::new();
    let first_whole = whole[0];
    for lane in 0..n {
        for &old in &sp {
            let mut v0 = base.clone();
            v0[lane] = old;
            for k in 0..T::mixed_count() {
                // the lane index of a Mixed step selects the tuple form
                out.push(vec![Step::Write { path: WPath::Mixed, lane: k, vals: v0.clone(), off: 0 }]);
            }
            for &w in &whole {
                let (vals, off) = if w == WPath::FromSlice { let mut v = vec![uniq(e, 900)]; v.extend(&v0); v.push(uniq(e, 901)); (v, 1) } else { (v0.clone(), 0) };
                out.push(vec![Step::Write { path: w, lane, vals, off }]);
            }
            for &p in &single {
                for &new in &sp {
                    out.push(vec![
                        Step::Write { path: first_whole, lane, vals: v0.clone(), off: 0 },
                        Step::Write { path: p, lane, vals: vec![new], off: 0 },
                    ]);
                }
            }
        }
    }
    out
}

pub fn gen_history<T: Paths + MixedCtor>(seed: u64, ti: usize, hi: u64, with_faults: bool) -> Vec<Step> {
    let mut rng = Rng::new(seed, "c17-history", (ti as u64) << 40 | hi);
    let n = T::N;
    let e = T::E::KIND;
    let len = rng.range(1, 32);
    let fault_rate = if with_faults { rng.range(1, 3) } else { 0 }; // of 10
    let mut wpv = T::wpaths().to_vec();
    if T::mixed_count() > 0 {
        wpv.push(WPath::Mixed);
    }
    let wp = &wpv[..];
    let mut ctr = 1u64;
    // mostly values unique within the history; now and then an edge value, so that writes of +0 over -0,
    // NaN over NaN, MIN over MAX ... occur (a write that is skipped when old == new compares by value)
    let edge_rate = rng.below(4); // of 16
    let rand_rate = rng.below(7); // of 16
    let mut vrng = Rng::new(seed, "c17-values", (ti as u64) << 40 | hi);
    let mut next = |k: usize| -> Vec<u64> {
        (0..k)
            .map(|_| {
                ctr += 1;
                let d = vrng.below(16);
                if d < edge_rate {
                    let s = specials(e);
                    s[vrng.below(s.len())]
                } else if d < edge_rate + rand_rate {
                    // any bit pattern: full mantissas, high NaN payload bits, negative subnormals, integers with all
                    // bytes in use - a path that detours through a narrower representation is lossy only there
                    gen_scalar_bits(e, &mut vrng, Cls::RandomBits)
                } else {
                    uniq(e, ctr)
                }
            })
            .collect()
    };
    let has_hidden = hidden::HAS_HIDDEN_LANE && matches!(T::NAME, "Vec3A" | "BVec3A");
    let mut h = Vec::new();
    for _ in 0..len {
        if rng.below(10) < fault_rate {
            let kind = rng.below(4);
            let st = match kind {
                0 => Step::BadIndex { idx: *rng.pick(&[n, n + 1, n + 2, usize::MAX]), val: next(1)[0] },
                1 if wp.contains(&WPath::FromSlice) && n > 0 => {
                    let l = rng.below(n);
                    Step::ShortSlice { len: l, vals: next(l) }
                }
                2 if has_hidden => Step::Poison { bits: crate::c08::POISON_CLASSES[rng.below(crate::c08::POISON_CLASSES.len())].1, route: rng.below(ROUTES.len()) },
                _ => Step::Sink { k: rng.below(12), debug: rng.chance(1, 2) },
            };
            if matches!(st, Step::BadIndex { .. }) && matches!(T::NAME, "Quat" | "DQuat") {
                continue;
            }
            h.push(st);
            continue;
        }
        let path = *rng.pick(wp);
        let lane = rng.below(n.max(1));
        let st = match path {
            WPath::FromSlice => {
                let off = rng.below(3);
                let extra = rng.below(3);
                Step::Write { path, lane, vals: next(off + n + extra), off }
            }
            WPath::Const => Step::Write { path, lane: rng.below(16), vals: vec![], off: 0 },
            WPath::Mixed => Step::Write { path, lane: rng.below(T::mixed_count()), vals: next(n), off: 0 },
            WPath::Default | WPath::Copy => Step::Write { path, lane, vals: vec![], off: 0 },
            WPath::Field | WPath::IndexMut | WPath::AsMutElem | WPath::With | WPath::Splat | WPath::Set => Step::Write { path, lane, vals: next(1), off: 0 },
            _ => Step::Write { path, lane, vals: next(n), off: 0 },
        };
        h.push(st);
    }
    h
}

fn tokens(s: &str, debug: bool) -> Vec<String> {
    // Debug output is `Name(a, b, c)` (or multi-line with {:#?}); Display is `[a, b, c]`
    let body = if debug {
        match s.find('(') {
            Some(i) => &s[i + 1..],
            None => s,
        }
    } else {
        s
    };
    body.split(|c: char| c == ',' || c == '[' || c == ']' || c == '(' || c == ')' || c.is_whitespace())
        .filter(|t| !t.is_empty())
        .map(|t| t.to_string())
        .collect()
}

fn fmt_elem<E: Scalar>(bits: u64, how: RPath) -> String {
    macro_rules! f {
        ($t:ty) => {{
            let v = <$t as Scalar>::from_bits64(bits);
            match how {
                RPath::Display | RPath::DisplayWidth => format!("{}", v),
                RPath::DisplayPrec | RPath::DisplayWidthPrec => format!("{:.3}", v),
                RPath::DisplayPrec0 => format!("{:.0}", v),
                RPath::DisplayPrec10 => format!("{:.10}", v),
                RPath::DebugPrec => format!("{:.2?}", v),
                _ => format!("{:?}", v),
            }
        }};
    }
    match E::KIND {
        Elem::Bool => f!(bool),
        Elem::F32 => f!(f32),
        Elem::F64 => f!(f64),
        Elem::I8 => f!(i8),
        Elem::U8 => f!(u8),
        Elem::I16 => f!(i16),
        Elem::U16 => f!(u16),
        Elem::I32 => f!(i32),
        Elem::U32 => f!(u32),
        Elem::I64 => f!(i64),
        Elem::U64 => f!(u64),
        Elem::Usize => f!(usize),
    }
}

fn render_lanes<E: Scalar>(bits: &[u64]) -> String {
    let v: Vec<String> = bits.iter().map(|b| scalar_val(E::KIND, *b).render()).collect();
    format!("[{}]", v.join(", "))
}

/// Compare every read path of `obj` with the model.
static NO_FMT: std::sync::atomic::AtomicBool = std::sync::atomic::AtomicBool::new(false);

/// Skip the text read paths (Display / Debug) - used under Miri, where float formatting dominates
/// the run time and the interesting paths are the pointer-cast / intrinsic ones.
pub fn set_no_fmt(on: bool) {
    NO_FMT.store(on, std::sync::atomic::Ordering::Relaxed);
}

fn check_reads<T: Paths>(obj: &T, model: &[u64], last_write: &str, canary: u64) -> Option<(String, String)> {
    let name = T::NAME;
    let aux: Vec<T::E> = vec![T::E::from_bits64(canary)];
    let no_fmt = NO_FMT.load(std::sync::atomic::Ordering::Relaxed);
    for &rp in T::rpaths() {
        if no_fmt && matches!(rp, RPath::Display | RPath::DisplayPrec | RPath::DisplayPrec0 | RPath::DisplayPrec10 | RPath::DisplayWidth | RPath::DisplayWidthPrec | RPath::Debug | RPath::DebugAlt | RPath::DebugPrec | RPath::DebugWidth) {
            continue;
        }
        let out = match util::catch(|| obj.read(rp, &aux)) {
            Ok(o) => o,
            Err(p) => {
                return Some((format!("read-panic:{name}:{rp:?}"), format!("read path {rp:?} panicked: {} (model {})", p.msg, render_lanes::<T::E>(model))));
            }
        };
        let bad = |got: String| {
            Some((
                format!("path-mismatch:{name}:{rp:?}"),
                format!("after write via {last_write}: read path {rp:?} sees {got}, model holds {}", render_lanes::<T::E>(model)),
            ))
        };
        match out {
            ReadOut::Unsupported => {}
            ReadOut::Lanes(l) => {
                let got: Vec<u64> = l.iter().map(|e| e.to_bits64()).collect();
                if got != model {
                    return bad(render_lanes::<T::E>(&got));
                }
            }
            ReadOut::Bool(ok) => {
                // Eq is only meaningful when no lane is NaN
                let has_nan = model.iter().any(|b| match T::E::KIND {
                    Elem::F32 => f32::from_bits(*b as u32).is_nan(),
                    Elem::F64 => f64::from_bits(*b).is_nan(),
                    _ => false,
                });
                let canary_nan = match T::E::KIND {
                    Elem::F32 => f32::from_bits(canary as u32).is_nan(),
                    Elem::F64 => f64::from_bits(canary).is_nan(),
                    _ => false,
                };
                if !ok && !(rp == RPath::Eq && (has_nan || canary_nan)) {
                    return bad(format!("a failed consistency verdict ({rp:?})"));
                }
            }
            ReadOut::Text(s) => {
                let is_debug = matches!(rp, RPath::Debug | RPath::DebugAlt | RPath::DebugPrec | RPath::DebugWidth);
                let got = tokens(&s, is_debug);
                let want: Vec<String> = model.iter().map(|b| fmt_elem::<T::E>(*b, rp)).collect();
                let ok = if T::E::KIND == Elem::Bool && is_debug {
                    // masks print lanes as booleans or as 0x0 / 0xffffffff words
                    got.len() == model.len()
                        && got.iter().zip(model).all(|(g, m)| match g.as_str() {
                            "true" | "0xffffffff" => *m == 1,
                            "false" | "0x0" => *m == 0,
                            _ => false,
                        })
                } else {
                    got == want
                };
                if !ok {
                    return bad(format!("text {s:?} (tokens {got:?}, expected {want:?})"));
                }
            }
        }
    }
    None
}

fn to_elems<T: Paths>(bits: &[u64]) -> Vec<T::E> {
    bits.iter().map(|b| T::E::from_bits64(*b)).collect()
}

/// Execute a history against the real object and the model. Returns the first violation.
pub fn execute<T: Paths + V + MixedCtor>(h: &[Step], stats: &mut Stats) -> Option<(usize, String, String)> {
    let n = T::N;
    let name = T::NAME;
    let e = T::E::KIND;
    let mut obj: T = T::consts()[0].1;
    let mut model: Vec<u64> = T::consts()[0].2.iter().map(|x| x.to_bits64()).collect();
    let canary = uniq(e, 0x3_0000);
    for (k, st) in h.iter().enumerate() {
        let mut last = String::new();
        match st {
            Step::Write { path, lane, vals, off } => {
                let v = to_elems::<T>(vals);
                last = format!("{path:?}");
                let lane = *lane;
                let r = util::catch(|| {
                    let mut o = obj;
                    if *path == WPath::Mixed {
                        o = T::from_mixed(lane % T::mixed_count().max(1), &v);
                    } else {
                        o.write(*path, lane, &v, *off);
                    }
                    o
                });
                match r {
                    Ok(o) => obj = o,
                    Err(p) => return Some((k, format!("write-panic:{name}:{path:?}"), format!("write path {path:?} panicked: {}", p.msg))),
                }
                // the reference model
                match path {
                    WPath::Field | WPath::IndexMut | WPath::AsMutElem | WPath::With | WPath::Set => model[lane] = vals[0],
                    WPath::Splat => model.iter_mut().for_each(|m| *m = vals[0]),
                    WPath::FromSlice => model.copy_from_slice(&vals[*off..*off + n]),
                    WPath::Const => {
                        let c = T::consts();
                        model = c[lane % c.len()].2.iter().map(|x| x.to_bits64()).collect();
                    }
                    WPath::Default => {
                        // documented: Default is ZERO for vectors, IDENTITY for quaternions, FALSE for masks
                        model = T::consts()[0].2.iter().map(|x| x.to_bits64()).collect();
                    }
                    WPath::Copy => {}
                    _ => model.copy_from_slice(&vals[..n]), // whole-value paths, incl. Mixed
                }
                stats.writes.push(*path);
            }
            Step::BadIndex { idx, val } => {
                last = format!("BAD_INDEX({})", *idx as i64);
                let v = T::E::from_bits64(*val);
                let idx = *idx;
                let mut o = obj;
                let r = util::catch(|| {
                    o.bad_index_write(idx, v);
                });
                stats.fault("BAD_INDEX", r.is_err());
                match r {
                    Ok(()) => {
                        return Some((k, format!("missing-panic:{name}::index_mut"), format!("write with index {} (valid < {n}) did not panic", idx as i64)));
                    }
                    Err(_) => obj = o, // whatever the panicking call left behind is what the history continues with
                }
            }
            Step::ShortSlice { len, vals } => {
                last = format!("SHORT_SLICE({len})");
                let v = to_elems::<T>(vals);
                let r = util::catch(|| T::short_from_slice(&v));
                stats.fault("SHORT_SLICE", r.is_err());
                if let Ok(o) = r {
                    let got: Vec<u64> = o.to_elems().iter().map(|x| x.to_bits64()).collect();
                    return Some((k, format!("missing-panic:{name}::from_slice"), format!("slice of {len} elements (need {n}) accepted as {}", render_lanes::<T::E>(&got))));
                }
            }
            Step::Poison { bits, route } => {
                last = format!("POISON_LANE3(0x{bits:08x})");
                let v = obj.into_val();
                let pv = match &v {
                    Val::Vec3A(x) => Val::Vec3A(hidden::poison_vec3a(*x, *bits, ROUTES[*route % ROUTES.len()])),
                    Val::BVec3A(m) => Val::BVec3A(hidden::poison_bvec3a(*m, bits & 1 == 1)),
                    o => o.clone(),
                };
                stats.fault("POISON_LANE3", hidden::is_padded(&v));
                obj = T::from_val(&pv);
            }
            Step::Sink { .. } if NO_FMT.load(std::sync::atomic::Ordering::Relaxed) => {}
            Step::Sink { k: fail_at, debug } => {
                last = format!("SINK_ERR@{fail_at}");
                let full = if *debug { format!("{:?}", obj) } else { format!("{}", obj) };
                let mut sink = FailingSink::new(Some(*fail_at));
                let r = util::catch(|| if *debug { write!(sink, "{:?}", obj) } else { write!(sink, "{}", obj) });
                let fired = sink.calls > *fail_at;
                stats.fault("SINK_ERR@k", fired);
                match r {
                    Err(p) => return Some((k, format!("sink-panic:{name}"), format!("formatting into a sink failing at write {fail_at} panicked: {}", p.msg))),
                    Ok(res) => {
                        if fired && res.is_ok() {
                            return Some((k, format!("sink-error-swallowed:{name}"), format!("sink failed at write {fail_at} but fmt returned Ok")));
                        }
                        if !full.starts_with(&sink.written) {
                            return Some((k, format!("sink-not-prefix:{name}"), format!("sink holds {:?}, fault-free text is {full:?}", sink.written)));
                        }
                    }
                }
            }
        }
        if let Some((class, detail)) = check_reads(&obj, &model, &last, canary) {
            return Some((k, class, detail));
        }
        stats.steps += 1;
    }
    None
}

#[derive(Default)]
pub struct Stats {
    pub steps: u64,
    pub writes: Vec<WPath>,
    pub fired: Vec<(&'static str, bool)>,
}
impl Stats {
    fn fault(&mut self, k: &'static str, effective: bool) {
        self.fired.push((k, effective));
    }
}

// ---------------------------------------------------------------------------------------------
// type table

pub struct Entry17 {
    pub name: &'static str,
    pub grid: fn() -> Vec<Vec<Step>>,
    pub gen: fn(u64, usize, u64, bool) -> Vec<Step>,
    pub exec: fn(&[Step], &mut Stats) -> Option<(usize, String, String)>,
    pub wpaths: &'static [WPath],
    pub rpaths: &'static [RPath],
}

macro_rules! entries17 {
    ($( ($T:ident, $E:ty, $N:expr, $K:ident) ),*) => {
        pub fn entries() -> Vec<Entry17> {
            let mut v = Vec::new();
            $( entries17!(@one v, $T, $K); )*
            v
        }
    };
    (@one $v:ident, $T:ident, mat) => {};
    (@one $v:ident, $T:ident, $K:ident) => {
        $v.push(Entry17 { name: stringify!($T), grid: grid_histories::<$T>, gen: gen_history::<$T>, exec: execute::<$T>, wpaths: <$T as Paths>::wpaths(), rpaths: <$T as Paths>::rpaths() });
    };
}
glam_types!(entries17);

fn replay_json(e: &Entry17, h: &[Step], seed: u64, run: u64, class: &str, detail: &str, from: usize) -> J {
    json!({
        "property": "C17", "config": util::CONFIG_TAG, "profile": util::profile_tag(), "seed": seed, "run": run,
        "type": e.name, "history": h.iter().map(step_json).collect::<Vec<_>>(),
        "violation_class": class, "observed": detail, "shrunk_from": {"steps": from},
    })
}

fn shrink(e: &Entry17, h: &[Step], class: &str) -> Vec<Step> {
    let same = |hh: &[Step]| -> Option<usize> {
        let mut st = Stats::default();
        match (e.exec)(hh, &mut st) {
            Some((k, c, _)) if c == class => Some(k),
            _ => None,
        }
    };
    let mut cur = h.to_vec();
    if let Some(k) = same(&cur) {
        cur.truncate(k + 1);
    }
    let mut i = cur.len();
    while i > 0 {
        i -= 1;
        if cur.len() <= 1 {
            break;
        }
        let mut cand = cur.clone();
        cand.remove(i);
        if let Some(k) = same(&cand) {
            cand.truncate(k + 1);
            cur = cand;
            i = i.min(cur.len());
        }
    }
    cur
}

pub fn run(seed: u64, histories: usize, workers: usize, with_faults: bool, types: Option<&str>, grid: bool) -> Summary {
    let mut ents = entries();
    if let Some(t) = types {
        let want: Vec<&str> = t.split(',').collect();
        ents.retain(|e| want.contains(&e.name));
    }
    let mut sum = Summary::default();
    for k in ["BAD_INDEX", "SHORT_SLICE", "POISON_LANE3", "SINK_ERR@k"] {
        sum.faults_fired.insert(k.into(), 0);
        sum.faults_effective.insert(k.into(), 0);
    }
    // grid histories first (deterministic, independent of the seed), then the seeded ones
    let grids: Vec<Vec<Vec<Step>>> = ents.iter().map(|e| if grid { (e.grid)() } else { Vec::new() }).collect();
    let mut grid_index: Vec<(usize, usize)> = Vec::new();
    for (ti, g) in grids.iter().enumerate() {
        for k in 0..g.len() {
            grid_index.push((ti, k));
        }
    }
    let ng = grid_index.len();
    sum.extra.insert("grid_histories".into(), json!(ng));
    let total = ng + ents.len() * histories;
    let mut steps = 0u64;
    let mut dig = util::Digest::default();
    let histories = histories.max(1);
    util::par_runs(
        total,
        workers,
        |i| {
            let (ti, hi, h) = if i < ng {
                let (ti, k) = grid_index[i];
                (ti, 1_000_000 + k as u64, grids[ti][k].clone())
            } else {
                let j = i - ng;
                let ti = j / histories;
                let hi = (j % histories) as u64;
                (ti, hi, (ents[ti].gen)(seed, ti, hi, with_faults))
            };
            let e = &ents[ti];
            let mut st = Stats::default();
            let r = (e.exec)(&h, &mut st);
            let viol = r.map(|(_, class, _)| {
                let small = shrink(e, &h, &class);
                let mut s2 = Stats::default();
                let (c2, d2) = match (e.exec)(&small, &mut s2) {
                    Some((_, c, d)) => (c, d),
                    None => (class.clone(), String::new()),
                };
                Violation { class: c2.clone(), detail: d2.clone(), replay: replay_json(e, &small, seed, hi, &c2, &d2, h.len()) }
            });
            let mut d = util::Digest::default();
            for s in &h {
                match s {
                    Step::Write { path, lane, vals, off } => {
                        d.push(1);
                        d.push(*path as u64);
                        d.push(*lane as u64);
                        d.push(*off as u64);
                        vals.iter().for_each(|v| d.push(*v));
                    }
                    Step::BadIndex { idx, val } => {
                        d.push(2);
                        d.push(*idx as u64);
                        d.push(*val);
                    }
                    Step::ShortSlice { len, vals } => {
                        d.push(3);
                        d.push(*len as u64);
                        vals.iter().for_each(|v| d.push(*v));
                    }
                    Step::Poison { bits, route } => {
                        d.push(4);
                        d.push(*bits as u64);
                        d.push(*route as u64);
                    }
                    Step::Sink { k, debug } => {
                        d.push(5);
                        d.push(*k as u64);
                        d.push(*debug as u64);
                    }
                }
            }
            let sample = if hi == 0 && ti % 13 == 0 { Some(json!({"type": e.name, "history": h.iter().map(step_json).collect::<Vec<_>>()})) } else { None };
            (st, viol, d.finish(), sample)
        },
        |i, (st, viol, d, sample)| {
            let e = &ents[if i < ng { grid_index[i].0 } else { (i - ng) / histories }];
            sum.evaluations += 1;
            steps += st.steps;
            dig.push(d);
            for w in &st.writes {
                for r in e.rpaths {
                    sum.distinct.insert(format!("{}|{:?}|{:?}", e.name, w, r));
                }
            }
            for (k, eff) in st.fired {
                sum.fired(k);
                if eff {
                    sum.effective(k);
                }
            }
            if let Some(s) = sample {
                if sum.samples.len() < 3 {
                    sum.samples.push(s);
                }
            }
            if let Some(v) = viol {
                sum.violations.push(v);
            }
        },
    );
    let full: usize = ents.iter().map(|e| e.wpaths.len() * e.rpaths.len()).sum();
    sum.digests.insert("histories".into(), dig);
    sum.extra.insert("types".into(), json!(ents.len()));
    sum.extra.insert("histories_per_type".into(), json!(histories));
    sum.extra.insert("steps_executed".into(), json!(steps));
    sum.extra.insert("path_matrix_size".into(), json!(full));
    sum.extra.insert("faults_enabled".into(), json!(with_faults));
    sum
}

pub fn replay(j: &J) -> Option<(String, String)> {
    let ents = entries();
    let name = j["type"].as_str().unwrap();
    let e = ents.iter().find(|e| e.name == name).expect("replay: unknown type");
    let h: Vec<Step> = j["history"].as_array().unwrap().iter().map(step_from).collect();
    let mut st = Stats::default();
    (e.exec)(&h, &mut st).map(|(_, c, d)| (c, d))
}

pub fn prof() {
    use std::time::Instant;
    let obj = Vec3A::new(1.0, 2.0, 3.0);
    let aux = [7.0f32];
    for &rp in <Vec3A as Paths>::rpaths() {
        let t = Instant::now();
        for _ in 0..10 {
            let _ = util::catch(|| obj.read(rp, &aux));
        }
        eprintln!("read {:?}: {:?}", rp, t.elapsed() / 10);
    }
    let t = Instant::now();
    for _ in 0..10 {
        let mut o = obj;
        o.write(WPath::Field, 1, &[5.0], 0);
    }
    eprintln!("write field: {:?}", t.elapsed() / 10);
    let h = gen_history::<Vec3A>(1, 0, 0, true);
    let t = Instant::now();
    let mut st = Stats::default();
    let _ = execute::<Vec3A>(&h, &mut st);
    eprintln!("execute {} steps: {:?}", h.len(), t.elapsed());
    let t = Instant::now();
    let _ = gen_history::<Vec3A>(1, 0, 1, true);
    eprintln!("gen_history: {:?}", t.elapsed());
}
