//! glamsim — single-process deterministic simulator for glam-rs (see /verif/DESIGN.md).
//!
//! One integer seed decides everything; programs, histories and fault plans are materialised
//! as data before execution; a violation is minimised and written as a self-contained replay.
//! Exit codes of this binary: 0 = ran (verdict is in the JSON), 2 = harness error.

#![cfg_attr(feature = "core-simd", feature(portable_simd))]
#![allow(clippy::all)]

mod arena;
mod c08;
mod c17;
mod c18i;
mod c18m;
mod c18p;
mod conv;
mod hidden;
mod ops;
mod report;
mod rng;
mod sink;
mod util;
mod val;

#[cfg(feature = "interop")]
mod c19;
#[cfg(feature = "interop")]
mod carrier;

use serde_json::Value as J;

fn main() {
    util::install_panic_hook();
    let args = util::Args::parse();
    let seed = args.u64("seed", 20260927);
    let workers = args.usize("workers", 16);
    let out = args.str("out");
    arena::set_echo(args.flag("echo-cases") || cfg!(miri));
    match args.cmd.as_str() {
        #[cfg(feature = "interop")]
        "c19" => {
            let s = c19::run(seed, args.usize("values", 8), workers);
            report::write_out(out, &s.to_json("C19", seed));
        }
        "c18m" => {
            arena::install_crash_monitor();
            let mem = if args.str("mem") == Some("heap") || cfg!(miri) { c18m::Mem::Heap } else { c18m::Mem::Guarded };
            let s = c18m::run(seed, args.usize("rounds", 2), mem, args.flag("subset"), args.str("types"));
            report::write_out(out, &s.to_json("C18", seed));
        }
        "c08" => {
            c08::set_canon_nan(cfg!(miri) || args.flag("canon-nan"));
            let s = c08::run(seed, args.usize("runs", 20000), workers, !args.flag("no-grid"));
            report::write_out(out, &s.to_json("C08", seed));
        }
        "c17" => {
            c17::set_no_fmt(args.flag("no-fmt"));
            let s = c17::run(seed, args.usize("histories", 2000), workers, !args.flag("no-faults"), args.str("types"), !args.flag("no-grid"));
            report::write_out(out, &s.to_json("C17", seed));
        }
        "c18i" => {
            let s = c18i::run(seed, args.usize("samples", 200), workers);
            report::write_out(out, &s.to_json("C18", seed));
        }
        "conv" => {
            let s = conv::run(seed, args.usize("rounds", 50));
            report::write_out(out, &s.to_json("C18", seed));
        }
        "c18chain" => {
            let s = c08::run_c18_chains(seed, args.usize("runs", 100000), workers);
            report::write_out(out, &s.to_json("C18", seed));
        }
        "c18p" if args.flag("once") => {
            let s = c18p::run_once(seed, args.usize("shard", 0), args.usize("of", 1), args.str("only"), args.usize("calls", 4), args.usize("related", 0), args.usize("swizzles", 0));
            report::write_out(out, &s.to_json("C18", seed));
        }
        "c18p" => {
            let s = c18p::run(seed, args.usize("samples", 32), workers);
            report::write_out(out, &s.to_json("C18", seed));
        }
        #[cfg(feature = "interop")]
        "c19forms" => {
            let vj: Option<J> = args.str("value-file").map(|p| {
                let j: J = serde_json::from_str(&std::fs::read_to_string(p).expect("value file")).expect("value json");
                j["value"].clone()
            });
            let r = c19::forms(seed, args.str("type").expect("--type"), args.usize("values", 8), vj.as_ref());
            report::write_out(out, &r);
        }
        "replay" => {
            let path = args.str("file").unwrap_or_else(|| {
                eprintln!("glamsim replay --file <path>");
                std::process::exit(2)
            });
            let text = std::fs::read_to_string(path).unwrap_or_else(|e| {
                eprintln!("glamsim: cannot read {path}: {e}");
                std::process::exit(2)
            });
            let j: J = serde_json::from_str(&text).unwrap_or_else(|e| {
                eprintln!("glamsim: bad replay file: {e}");
                std::process::exit(2)
            });
            let got: Option<(String, String)> = match j["property"].as_str().unwrap_or("") {
                #[cfg(feature = "interop")]
                "C19" => c19::replay(&j),
                "C08" => {
                    c08::set_canon_nan(cfg!(miri));
                    c08::replay(&j)
                }
                "C17" => c17::replay(&j),
                "C18" if j["part"].as_str() == Some("chain") => c08::replay_c18_chain(&j),
                "C18" if j["part"].as_str() == Some("P") => c18p::replay(&j),
                "C18" if j["part"].as_str() == Some("I") => c18i::replay(&j),
                "C18" if j["part"].as_str() == Some("conv") && j.get("rounds").is_some() => conv::replay(&j),
                "C18" if j["part"].as_str() == Some("M") && j["case"]["kind"].as_str() == Some("op") => {
                    // a monitor abort inside a plain op call: run that op again under the same monitor
                    let s = c18p::run_once(seed, 0, 1, j["case"]["fn"].as_str(), 4, usize::MAX, 0);
                    s.violations.into_iter().next().map(|v| (v.class, v.detail))
                }
                "C18" if j["part"].as_str() == Some("M") => {
                    arena::install_crash_monitor();
                    c18m::replay(&j)
                }
                p => {
                    eprintln!("glamsim: cannot replay property {p:?} in this build");
                    std::process::exit(2)
                }
            };
            let want_class = j["violation_class"].as_str().unwrap_or("");
            let want_obs = j["observed"].as_str().unwrap_or("");
            let res = match &got {
                Some((c, d)) => serde_json::json!({
                    "reproduced": c == want_class && d == want_obs,
                    "same_class": c == want_class,
                    "class": c, "observed": d,
                }),
                None => serde_json::json!({"reproduced": false, "same_class": false, "class": J::Null, "observed": J::Null}),
            };
            report::write_out(out, &res);
        }
        "prof" => {
            use std::time::Instant;
            let n = 50;
            let t = Instant::now();
            for i in 0..n { let _ = rng::Rng::new(1, "x", i); }
            eprintln!("rng::new {:?}", t.elapsed() / n as u32);
            let t = Instant::now();
            for _ in 0..n { let _ = val::TyId::Vec3A.from_bits(&[1, 2, 3]); }
            eprintln!("from_bits {:?}", t.elapsed() / n as u32);
            let v = val::TyId::Vec3A.from_bits(&[1, 2, 3]);
            let t = Instant::now();
            for _ in 0..n { let _ = v.glam_bits(); }
            eprintln!("glam_bits {:?}", t.elapsed() / n as u32);
            let t = Instant::now();
            for _ in 0..n { arena::announce(&serde_json::json!({"kind": "slice", "type": "Vec3A", "len": 3}).to_string()); }
            eprintln!("announce {:?}", t.elapsed() / n as u32);
            let t = Instant::now();
            for _ in 0..n { let _ = util::catch(|| { let v: Vec<u32> = vec![]; v[1] }); }
            eprintln!("catch panic {:?}", t.elapsed() / n as u32);
            let t = Instant::now();
            for _ in 0..n { let _ = util::catch(|| 1); }
            eprintln!("catch ok {:?}", t.elapsed() / n as u32);
            let t = Instant::now();
            for _ in 0..n { let _ = hidden::hidden_bits(&v); let _ = hidden::with_hidden_bits(&v, &[1, 2, 3, 4]); }
            eprintln!("hidden {:?}", t.elapsed() / n as u32);
            let t = Instant::now();
            for _ in 0..n { let _ = format!("{}|{}|{}", "abc", 1, 2); }
            eprintln!("format {:?}", t.elapsed() / n as u32);
            c17::prof();
        }
        "info" => {
            println!("config={} profile={} hidden_lane={}", util::CONFIG_TAG, util::profile_tag(), hidden::HAS_HIDDEN_LANE);
        }
        other => {
            eprintln!("glamsim: unknown command {other:?}");
            std::process::exit(2);
        }
    }
}
