//! glamsim — single-process deterministic simulator for glam-rs (see /verif/DESIGN.md).
//!
//! One integer seed decides everything; programs, histories and fault plans are materialised
//! as data before execution; a violation is minimised and written as a self-contained replay.
//! Exit codes of this binary: 0 = ran (verdict is in the JSON), 2 = harness error.

#![cfg_attr(feature = "core-simd", feature(portable_simd))]
#![allow(clippy::all)]

mod arena;
mod c18m;
mod hidden;
mod ops;
mod report;
mod rng;
mod sink;
mod util;
mod val;

#[cfg(feature = "interop")]
mod c19;
#[cfg(feature = "interop")]
mod carrier;

use serde_json::Value as J;

fn main() {
    util::install_panic_hook();
    let args = util::Args::parse();
    let seed = args.u64("seed", 20260927);
    let workers = args.usize("workers", 16);
    let out = args.str("out");
    match args.cmd.as_str() {
        #[cfg(feature = "interop")]
        "c19" => {
            let s = c19::run(seed, args.usize("values", 8), workers);
            report::write_out(out, &s.to_json("C19", seed));
        }
        "c18m" => {
            arena::install_crash_monitor();
            let mem = if args.str("mem") == Some("heap") || cfg!(miri) { c18m::Mem::Heap } else { c18m::Mem::Guarded };
            let s = c18m::run(seed, args.usize("rounds", 2), mem, args.flag("subset"));
            report::write_out(out, &s.to_json("C18", seed));
        }
        #[cfg(feature = "interop")]
        "c19forms" => {
            let vj: Option<J> = args.str("value-file").map(|p| {
                let j: J = serde_json::from_str(&std::fs::read_to_string(p).expect("value file")).expect("value json");
                j["value"].clone()
            });
            let r = c19::forms(seed, args.str("type").expect("--type"), args.usize("values", 8), vj.as_ref());
            report::write_out(out, &r);
        }
        "replay" => {
            let path = args.str("file").unwrap_or_else(|| {
                eprintln!("glamsim replay --file <path>");
                std::process::exit(2)
            });
            let text = std::fs::read_to_string(path).unwrap_or_else(|e| {
                eprintln!("glamsim: cannot read {path}: {e}");
                std::process::exit(2)
            });
            let j: J = serde_json::from_str(&text).unwrap_or_else(|e| {
                eprintln!("glamsim: bad replay file: {e}");
                std::process::exit(2)
            });
            let got: Option<(String, String)> = match j["property"].as_str().unwrap_or("") {
                #[cfg(feature = "interop")]
                "C19" => c19::replay(&j),
                "C18" if j["part"].as_str() == Some("M") => {
                    arena::install_crash_monitor();
                    c18m::replay(&j)
                }
                p => {
                    eprintln!("glamsim: cannot replay property {p:?} in this build");
                    std::process::exit(2)
                }
            };
            let want_class = j["violation_class"].as_str().unwrap_or("");
            let want_obs = j["observed"].as_str().unwrap_or("");
            let res = match &got {
                Some((c, d)) => serde_json::json!({
                    "reproduced": c == want_class && d == want_obs,
                    "same_class": c == want_class,
                    "class": c, "observed": d,
                }),
                None => serde_json::json!({"reproduced": false, "same_class": false, "class": J::Null, "observed": J::Null}),
            };
            report::write_out(out, &res);
        }
        "info" => {
            println!("config={} profile={} hidden_lane={}", util::CONFIG_TAG, util::profile_tag(), hidden::HAS_HIDDEN_LANE);
        }
        other => {
            eprintln!("glamsim: unknown command {other:?}");
            std::process::exit(2);
        }
    }
}
