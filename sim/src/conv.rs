//! A compact workload over the pointer-cast / intrinsic / union conversions of the SIMD-backed
//! types that are *not* slice or index functions (to_cols_array, as_ref/as_mut of matrices, Deref
//! overlays, From<Vec3A> for Vec3 through MaybeUninit<Align16<_>>, tuple constructors, swizzles,
//! matrix products that store through aligned temporaries ...). Natively it is trivially fast; its
//! purpose is to run under Miri and AddressSanitizer in the quick tier, where an uninitialised
//! or out-of-bounds *read whose result happens to look right* is reported by the monitor.
//! Results are also checked against the plain accessors, so a wrong lane is a violation too.

use crate::report::{Summary, Violation};
use crate::rng::Rng;
use crate::val::*;
use glam::*;
use serde_json::json;
use std::hint::black_box;

fn f(rng: &mut Rng) -> f32 {
    f32::from_bits(gen_scalar_bits(Elem::F32, rng, Cls::Mix) as u32)
}
fn d(rng: &mut Rng) -> f64 {
    f64::from_bits(gen_scalar_bits(Elem::F64, rng, Cls::Mix))
}
fn eq32(a: &[f32], b: &[f32]) -> bool {
    a.len() == b.len() && a.iter().zip(b).all(|(x, y)| x.to_bits() == y.to_bits())
}

macro_rules! check {
    ($bad:ident, $name:expr, $cond:expr) => {
        if !$cond {
            $bad.push($name.to_string());
        }
    };
}

pub fn one_round(rng: &mut Rng, bad: &mut Vec<String>) -> u64 {
    let mut n = 0u64;
    let mut tick = || n += 1;
    // ---- Vec3A / Vec4 / Quat
    let (x, y, z, w) = (f(rng), f(rng), f(rng), f(rng));
    let v3a = black_box(Vec3A::new(x, y, z));
    let v4 = black_box(Vec4::new(x, y, z, w));
    let q = black_box(Quat::from_xyzw(x, y, z, w));
    let v3: Vec3 = v3a.into();
    tick();
    check!(bad, "From<Vec3A> for Vec3", eq32(&v3.to_array(), &[x, y, z]));
    let back: Vec3A = v3.into();
    tick();
    check!(bad, "From<Vec3> for Vec3A", eq32(&back.to_array(), &[x, y, z]));
    let e = v3a.extend(w);
    tick();
    check!(bad, "Vec3A::extend", eq32(&e.to_array(), &[x, y, z, w]));
    let t = v4.truncate();
    tick();
    check!(bad, "Vec4::truncate", eq32(&t.to_array(), &[x, y, z]));
    let t2 = Vec3A::from_vec4(v4);
    tick();
    check!(bad, "Vec3A::from_vec4", eq32(&t2.to_array(), &[x, y, z]));
    let c1 = Vec4::from((v3a, w));
    let c2 = Vec4::from((x, Vec3A::new(y, z, w)));
    let c3 = Vec4::from((v3, w));
    let c4 = Vec4::from((Vec2::new(x, y), z, w));
    let c5 = Vec4::from((Vec2::new(x, y), Vec2::new(z, w)));
    for (nm, c) in [("(Vec3A,f32)", c1), ("(f32,Vec3A)", c2), ("(Vec3,f32)", c3), ("(Vec2,f32,f32)", c4), ("(Vec2,Vec2)", c5)] {
        tick();
        check!(bad, format!("Vec4::from({nm})"), eq32(&c.to_array(), &[x, y, z, w]));
    }
    let c6 = Vec3A::from((Vec2::new(x, y), z));
    tick();
    check!(bad, "Vec3A::from((Vec2,f32))", eq32(&c6.to_array(), &[x, y, z]));
    // swizzles that change width
    tick();
    check!(bad, "Vec3A::xy", eq32(&v3a.xy().to_array(), &[x, y]));
    tick();
    check!(bad, "Vec3A::zyx", eq32(&v3a.zyx().to_array(), &[z, y, x]));
    tick();
    check!(bad, "Vec3A::xyzx", eq32(&v3a.xyzx().to_array(), &[x, y, z, x]));
    tick();
    check!(bad, "Vec4::wzy", eq32(&v4.wzy().to_array(), &[w, z, y]));
    tick();
    check!(bad, "Vec4::xw", eq32(&v4.xw().to_array(), &[x, w]));
    tick();
    check!(bad, "Quat::xyz", eq32(&q.xyz().to_array(), &[x, y, z]));
    let qv: Vec4 = q.into();
    tick();
    check!(bad, "From<Quat> for Vec4", eq32(&qv.to_array(), &[x, y, z, w]));
    tick();
    check!(bad, "Quat::from_vec4", eq32(&Quat::from_vec4(v4).to_array(), &[x, y, z, w]));
    // const constructors go through a union cast
    const CV3A: Vec3A = Vec3A::new(1.0, 2.0, 3.0);
    const CV4: Vec4 = Vec4::from_array([1.0, 2.0, 3.0, 4.0]);
    const CQ: Quat = Quat::from_xyzw(1.0, 2.0, 3.0, 4.0);
    const CS: Vec3A = Vec3A::splat(7.0);
    tick();
    check!(bad, "const Vec3A::new", eq32(&black_box(CV3A).to_array(), &[1.0, 2.0, 3.0]));
    tick();
    check!(bad, "const Vec4::from_array", eq32(&black_box(CV4).to_array(), &[1.0, 2.0, 3.0, 4.0]));
    tick();
    check!(bad, "const Quat::from_xyzw", eq32(&black_box(CQ).to_array(), &[1.0, 2.0, 3.0, 4.0]));
    tick();
    check!(bad, "const Vec3A::splat", eq32(&black_box(CS).to_array(), &[7.0; 3]));
    // ---- Mat2 / Mat3A / Mat4 / Affine
    let m: [f32; 16] = core::array::from_fn(|_| f(rng));
    let m2 = black_box(Mat2::from_cols_array(&[m[0], m[1], m[2], m[3]]));
    tick();
    check!(bad, "Mat2::to_cols_array", eq32(&m2.to_cols_array(), &m[..4]));
    let a2 = m2.to_cols_array_2d();
    tick();
    check!(bad, "Mat2::to_cols_array_2d", eq32(&[a2[0][0], a2[0][1], a2[1][0], a2[1][1]], &m[..4]));
    let r: &[f32; 4] = m2.as_ref();
    tick();
    check!(bad, "Mat2::as_ref", eq32(r, &m[..4]));
    let mut m2m = m2;
    {
        let rm: &mut [f32; 4] = m2m.as_mut();
        rm[2] = 99.0;
    }
    tick();
    check!(bad, "Mat2::as_mut", eq32(&m2m.to_cols_array(), &[m[0], m[1], 99.0, m[3]]));
    tick();
    check!(bad, "Mat2 fields", eq32(&[m2.x_axis.x, m2.x_axis.y, m2.y_axis.x, m2.y_axis.y], &m[..4]));
    let mut m2f = m2;
    m2f.y_axis.x = 5.0;
    tick();
    check!(bad, "Mat2 field write", eq32(&m2f.to_cols_array(), &[m[0], m[1], 5.0, m[3]]));
    tick();
    check!(bad, "Mat2::from_cols_array_2d", eq32(&Mat2::from_cols_array_2d(&[[m[0], m[1]], [m[2], m[3]]]).to_cols_array(), &m[..4]));
    tick();
    check!(bad, "Mat2::from_diagonal", eq32(&Mat2::from_diagonal(Vec2::new(x, y)).to_cols_array(), &[x, 0.0, 0.0, y]));
    tick();
    check!(bad, "Mat2::transpose", eq32(&m2.transpose().to_cols_array(), &[m[0], m[2], m[1], m[3]]));
    let _ = black_box(m2 * Vec2::new(x, y));
    tick();
    let _ = black_box(m2 * m2);
    tick();
    let _ = black_box(m2.inverse());
    tick();
    tick();
    check!(bad, "Mat2::from_mat3a", eq32(&Mat2::from_mat3a(Mat3A::from_cols_array(&[m[0], m[1], 0.0, m[2], m[3], 0.0, 0.0, 0.0, 1.0])).to_cols_array(), &m[..4]));

    let m3a = black_box(Mat3A::from_cols_array(&[m[0], m[1], m[2], m[3], m[4], m[5], m[6], m[7], m[8]]));
    tick();
    check!(bad, "Mat3A::to_cols_array", eq32(&m3a.to_cols_array(), &m[..9]));
    let a3 = m3a.to_cols_array_2d();
    tick();
    check!(bad, "Mat3A::to_cols_array_2d", eq32(&[a3[0][0], a3[0][1], a3[0][2], a3[1][0], a3[1][1], a3[1][2], a3[2][0], a3[2][1], a3[2][2]], &m[..9]));
    tick();
    check!(bad, "Mat3A::from_cols_array_2d", eq32(&Mat3A::from_cols_array_2d(&a3).to_cols_array(), &m[..9]));
    let m3: Mat3 = m3a.into();
    tick();
    check!(bad, "From<Mat3A> for Mat3", eq32(&m3.to_cols_array(), &m[..9]));
    let m3b: Mat3A = m3.into();
    tick();
    check!(bad, "From<Mat3> for Mat3A", eq32(&m3b.to_cols_array(), &m[..9]));
    tick();
    check!(bad, "Mat3A::transpose", eq32(&m3a.transpose().to_cols_array(), &[m[0], m[3], m[6], m[1], m[4], m[7], m[2], m[5], m[8]]));
    let _ = black_box(m3a * v3a);
    tick();
    let _ = black_box(m3a * m3a);
    tick();
    let _ = black_box(m3a.mul_vec3a(v3a));
    tick();
    let _ = black_box(m3a.inverse());
    tick();
    let _ = black_box(m3a.determinant());
    tick();
    let _ = black_box(m3a.transform_point2(Vec2::new(x, y)));
    tick();

    let m4 = black_box(Mat4::from_cols_array(&m));
    tick();
    check!(bad, "Mat4::to_cols_array", eq32(&m4.to_cols_array(), &m));
    let a4 = m4.to_cols_array_2d();
    let flat: Vec<f32> = a4.iter().flatten().copied().collect();
    tick();
    check!(bad, "Mat4::to_cols_array_2d", eq32(&flat, &m));
    tick();
    check!(bad, "Mat4::from_cols_array_2d", eq32(&Mat4::from_cols_array_2d(&a4).to_cols_array(), &m));
    let r4: &[f32; 16] = m4.as_ref();
    tick();
    check!(bad, "Mat4::as_ref", eq32(r4, &m));
    let mut m4m = m4;
    {
        let rm: &mut [f32; 16] = m4m.as_mut();
        rm[13] = 42.0;
    }
    let mut want = m;
    want[13] = 42.0;
    tick();
    check!(bad, "Mat4::as_mut", eq32(&m4m.to_cols_array(), &want));
    tick();
    check!(bad, "Mat4::transpose", {
        let tt = m4.transpose().to_cols_array();
        (0..4).all(|c| (0..4).all(|r_| tt[c * 4 + r_].to_bits() == m[r_ * 4 + c].to_bits()))
    });
    let _ = black_box(m4 * v4);
    tick();
    let _ = black_box(m4 * m4);
    tick();
    let _ = black_box(m4.inverse());
    tick();
    let _ = black_box(m4.determinant());
    tick();
    let _ = black_box(m4.transform_point3a(v3a));
    tick();
    let _ = black_box(m4.project_point3a(v3a));
    tick();
    let _ = black_box(m4.to_scale_rotation_translation());
    tick();
    tick();
    check!(bad, "Mat4::from_mat3a", eq32(&Mat4::from_mat3a(m3a).to_cols_array()[..3], &m[..3]));
    tick();
    check!(bad, "Mat3A::from_mat4", eq32(&Mat3A::from_mat4(m4).to_cols_array(), &[m[0], m[1], m[2], m[4], m[5], m[6], m[8], m[9], m[10]]));

    let af3 = black_box(Affine3A::from_cols_array(&[m[0], m[1], m[2], m[3], m[4], m[5], m[6], m[7], m[8], m[9], m[10], m[11]]));
    tick();
    check!(bad, "Affine3A::to_cols_array", eq32(&af3.to_cols_array(), &m[..12]));
    let aa = af3.to_cols_array_2d();
    let flat: Vec<f32> = aa.iter().flatten().copied().collect();
    tick();
    check!(bad, "Affine3A::to_cols_array_2d", eq32(&flat, &m[..12]));
    tick();
    check!(bad, "Affine3A Deref axes", eq32(&[af3.x_axis.x, af3.y_axis.y, af3.z_axis.z, af3.w_axis.x], &[m[0], m[4], m[8], m[9]]));
    let am: Mat4 = af3.into();
    tick();
    check!(bad, "From<Affine3A> for Mat4", eq32(&am.to_cols_array()[..3], &m[..3]) && am.w_axis.w.to_bits() == 1.0f32.to_bits());
    let _ = black_box(af3 * af3);
    tick();
    let _ = black_box(af3.inverse());
    tick();
    let _ = black_box(af3.transform_point3a(v3a));
    tick();
    let _ = black_box(af3 * m4);
    tick();
    let af2 = black_box(Affine2::from_cols_array(&[m[0], m[1], m[2], m[3], m[4], m[5]]));
    tick();
    check!(bad, "Affine2::to_cols_array", eq32(&af2.to_cols_array(), &m[..6]));
    tick();
    check!(bad, "Affine2 Deref axes", eq32(&[af2.x_axis.x, af2.y_axis.y, af2.z_axis.x], &[m[0], m[3], m[4]]));
    let _ = black_box(af2 * af2);
    tick();
    let _ = black_box(af2.inverse());
    tick();
    let _ = black_box(Mat3A::from(af2));
    tick();
    // ---- masks
    let b3 = black_box(v3a.cmpgt(Vec3A::new(y, z, x)));
    let b4 = black_box(v4.cmpgt(Vec4::new(y, z, w, x)));
    let a: [bool; 3] = b3.into();
    let u: [u32; 3] = b3.into();
    tick();
    check!(bad, "BVec3A conversions", (0..3).all(|i| a[i] == b3.test(i) && (u[i] == u32::MAX) == a[i]));
    let a: [bool; 4] = b4.into();
    let u: [u32; 4] = b4.into();
    tick();
    check!(bad, "BVec4A conversions", (0..4).all(|i| a[i] == b4.test(i) && (u[i] == u32::MAX) == a[i]));
    let _ = black_box(Vec3A::select(b3, v3a, back));
    tick();
    let _ = black_box(Vec4::select(b4, v4, c1));
    tick();
    let _ = black_box(Vec3A::from(b3));
    tick();
    // ---- f64 counterparts share no unsafe code but keep the workload honest about what is plain
    let dv = black_box(DVec4::new(d(rng), d(rng), d(rng), d(rng)));
    let _ = black_box(DMat4::from_cols(dv, dv, dv, dv).to_cols_array_2d());
    tick();
    n
}

pub fn run(seed: u64, rounds: usize) -> Summary {
    let mut sum = Summary::default();
    let mut rng = Rng::new(seed, "conv", 0);
    let mut calls = 0;
    for r in 0..rounds {
        let mut bad = Vec::new();
        calls += one_round(&mut rng, &mut bad);
        for b in bad {
            let class = format!("wrong-conversion:{b}");
            let detail = format!("{b} disagrees with the plain accessors (round {r}, seed {seed})");
            sum.violations.push(Violation {
                class: class.clone(),
                detail: detail.clone(),
                replay: json!({"property": "C18", "part": "conv", "config": crate::util::CONFIG_TAG, "profile": crate::util::profile_tag(),
                               "seed": seed, "rounds": rounds, "violation_class": class, "observed": detail}),
            });
        }
    }
    sum.evaluations = calls;
    sum.distinct.insert("conversion-workload".into());
    sum.distinct.insert(format!("rounds-{rounds}"));
    sum.samples.push(json!({"workload": "SIMD conversions", "calls_per_round": calls / rounds.max(1) as u64}));
    sum
}

pub fn replay(j: &serde_json::Value) -> Option<(String, String)> {
    let s = run(j["seed"].as_u64().unwrap(), j["rounds"].as_u64().unwrap_or(1) as usize);
    let want = j["violation_class"].as_str().unwrap_or("");
    s.violations.into_iter().find(|v| v.class == want).map(|v| (v.class, v.detail))
}
