//! C18 (M) — caller-supplied memory and indices as a simulated environment.
//!
//! Exhaustive over (function, length 0..=N+4, misalignment 0..3 elements, placement) and over
//! (function, index in 0..=N+2 ∪ {usize::MAX}); contents are ordinal in round 0 and seeded in
//! later rounds. Panics are crash points: the destination / receiver must be byte-identical
//! to its pre-call image. Guard pages turn an out-of-bounds access into an attributed crash.

#![allow(dead_code)]

use crate::arena::{self, Arena, Place, PLACES};
use crate::glam_types;
use crate::hidden;
use crate::report::{Summary, Violation};
use crate::rng::Rng;
use crate::util;
use crate::val::*;
use glam::*;
use serde_json::{json, Value as J};

pub struct SliceEntry {
    pub ty: TyId,
    pub rname: &'static str,
    pub wname: &'static str,
    pub read: fn(*const u8, usize) -> Val,
    pub write: fn(&Val, *mut u8, usize),
}

macro_rules! slice_entry {
    ($T:ident, $E:ty, $r:ident, $w:ident) => {
        SliceEntry {
            ty: TyId::$T,
            rname: stringify!($r),
            wname: stringify!($w),
            read: |p, n| {
                let s: &[$E] = unsafe { core::slice::from_raw_parts(p as *const $E, n) };
                $T::$r(s).into_val()
            },
            write: |v, p, n| {
                let s: &mut [$E] = unsafe { core::slice::from_raw_parts_mut(p as *mut $E, n) };
                <$T as V>::from_val(v).$w(s)
            },
        }
    };
}

macro_rules! slice_entries {
    ($( ($T:ident, $E:ty, $N:expr, $K:ident) ),*) => {
        pub fn slice_entries() -> Vec<SliceEntry> {
            let mut v = Vec::new();
            $( slice_entries!(@one v, $T, $E, $K); )*
            v
        }
    };
    (@one $v:ident, $T:ident, $E:ty, vec) => { $v.push(slice_entry!($T, $E, from_slice, write_to_slice)); };
    (@one $v:ident, $T:ident, $E:ty, quat) => { $v.push(slice_entry!($T, $E, from_slice, write_to_slice)); };
    (@one $v:ident, $T:ident, $E:ty, mat) => { $v.push(slice_entry!($T, $E, from_cols_slice, write_cols_to_slice)); };
    (@one $v:ident, $T:ident, $E:ty, bvec) => {};
}
glam_types!(slice_entries);

#[derive(Clone, Copy, Debug, PartialEq, Eq)]
pub enum IdxKind {
    VecIndex,
    VecIndexMut,
    MatCol,
    MatColMut,
    MatRow,
    BTest,
    BSet,
    Minor,
}

pub struct IndexEntry {
    pub name: &'static str,
    pub ty: TyId,
    pub kind: IdxKind,
    /// valid indices are < limit
    pub limit: usize,
    /// (receiver, i, j, aux bits) -> result; may mutate the receiver
    pub call: fn(&mut Val, usize, usize, &[u64]) -> Val,
}

macro_rules! vec_index {
    ($v:ident, $T:ident, $E:ty, $N:expr) => {
        $v.push(IndexEntry {
            name: concat!(stringify!($T), "::index"),
            ty: TyId::$T,
            kind: IdxKind::VecIndex,
            limit: $N,
            call: |r, i, _, _| {
                let x = <$T as V>::from_val(r);
                x[i].into_val()
            },
        });
        $v.push(IndexEntry {
            name: concat!(stringify!($T), "::index_mut"),
            ty: TyId::$T,
            kind: IdxKind::VecIndexMut,
            limit: $N,
            call: |r, i, _, aux| {
                let Val::$T(x) = r else { unreachable!() };
                x[i] = <$E as Scalar>::from_bits64(aux[0]);
                Val::Unit
            },
        });
    };
}
macro_rules! mat_index {
    ($v:ident, $T:ident, $cols:expr, $C:ident) => {
        $v.push(IndexEntry {
            name: concat!(stringify!($T), "::col"),
            ty: TyId::$T,
            kind: IdxKind::MatCol,
            limit: $cols,
            call: |r, i, _, _| <$T as V>::from_val(r).col(i).into_val(),
        });
        $v.push(IndexEntry {
            name: concat!(stringify!($T), "::col_mut"),
            ty: TyId::$T,
            kind: IdxKind::MatColMut,
            limit: $cols,
            call: |r, i, _, aux| {
                let Val::$T(x) = r else { unreachable!() };
                let e: Vec<<$C as GlamTy>::E> = aux.iter().take(<$C as GlamTy>::N).map(|b| Scalar::from_bits64(*b)).collect();
                *x.col_mut(i) = <$C as GlamTy>::from_elems(&e);
                Val::Unit
            },
        });
        $v.push(IndexEntry {
            name: concat!(stringify!($T), "::row"),
            ty: TyId::$T,
            kind: IdxKind::MatRow,
            limit: $cols,
            call: |r, i, _, _| <$T as V>::from_val(r).row(i).into_val(),
        });
    };
}
macro_rules! bvec_index {
    ($v:ident, $T:ident, $N:expr) => {
        $v.push(IndexEntry {
            name: concat!(stringify!($T), "::test"),
            ty: TyId::$T,
            kind: IdxKind::BTest,
            limit: $N,
            call: |r, i, _, _| <$T as V>::from_val(r).test(i).into_val(),
        });
        $v.push(IndexEntry {
            name: concat!(stringify!($T), "::set"),
            ty: TyId::$T,
            kind: IdxKind::BSet,
            limit: $N,
            call: |r, i, _, aux| {
                let Val::$T(x) = r else { unreachable!() };
                x.set(i, aux[0] & 1 == 1);
                Val::Unit
            },
        });
    };
}
macro_rules! minor {
    ($v:ident, $D:ident, $S:ident, $f:ident, $limit:expr) => {
        $v.push(IndexEntry {
            name: concat!(stringify!($D), "::", stringify!($f)),
            ty: TyId::$S,
            kind: IdxKind::Minor,
            limit: $limit,
            call: |r, i, j, _| $D::$f(<$S as V>::from_val(r), i, j).into_val(),
        });
    };
}

macro_rules! index_entries {
    ($( ($T:ident, $E:ty, $N:expr, $K:ident) ),*) => {
        pub fn index_entries() -> Vec<IndexEntry> {
            let mut v = Vec::new();
            $( index_entries!(@one v, $T, $E, $N, $K); )*
            mat_index!(v, Mat2, 2, Vec2);
            mat_index!(v, Mat3, 3, Vec3);
            mat_index!(v, Mat3A, 3, Vec3A);
            mat_index!(v, Mat4, 4, Vec4);
            mat_index!(v, DMat2, 2, DVec2);
            mat_index!(v, DMat3, 3, DVec3);
            mat_index!(v, DMat4, 4, DVec4);
            minor!(v, Mat2, Mat3, from_mat3_minor, 3);
            minor!(v, Mat2, Mat3A, from_mat3a_minor, 3);
            minor!(v, DMat2, DMat3, from_mat3_minor, 3);
            minor!(v, Mat3, Mat4, from_mat4_minor, 4);
            minor!(v, Mat3A, Mat4, from_mat4_minor, 4);
            minor!(v, DMat3, DMat4, from_mat4_minor, 4);
            v
        }
    };
    (@one $v:ident, $T:ident, $E:ty, $N:expr, vec) => { vec_index!($v, $T, $E, $N); };
    (@one $v:ident, $T:ident, $E:ty, $N:expr, bvec) => { bvec_index!($v, $T, $N); };
    (@one $v:ident, $T:ident, $E:ty, $N:expr, $other:ident) => {};
}
glam_types!(index_entries);

// ---------------------------------------------------------------------------------------------

fn es_of(e: Elem) -> usize {
    match e {
        Elem::Bool | Elem::I8 | Elem::U8 => 1,
        Elem::I16 | Elem::U16 => 2,
        Elem::F32 | Elem::I32 | Elem::U32 => 4,
        _ => 8,
    }
}

fn ordinal(e: Elem, k: usize) -> u64 {
    match e {
        Elem::F32 => (k as f32).to_bits() as u64,
        Elem::F64 => (k as f64).to_bits(),
        Elem::Bool => (k & 1) as u64,
        _ => k as u64,
    }
}

fn to_bytes(e: Elem, bits: &[u64]) -> Vec<u8> {
    let es = es_of(e);
    let mut v = Vec::with_capacity(bits.len() * es);
    for b in bits {
        v.extend_from_slice(&b.to_le_bytes()[..es]);
    }
    v
}
fn from_bytes(e: Elem, bytes: &[u8]) -> Vec<u64> {
    let es = es_of(e);
    bytes
        .chunks(es)
        .map(|c| {
            let mut w = [0u8; 8];
            w[..c.len()].copy_from_slice(c);
            let raw = u64::from_le_bytes(w);
            // model convention: signed ints are stored sign-extended
            match e {
                Elem::I8 => raw as u8 as i8 as i64 as u64,
                Elem::I16 => raw as u16 as i16 as i64 as u64,
                Elem::I32 => raw as u32 as i32 as i64 as u64,
                _ => raw,
            }
        })
        .collect()
}

fn content(e: Elem, len: usize, base: usize, round: usize, rng: &mut Rng) -> Vec<u64> {
    (0..len)
        .map(|i| if round == 0 { ordinal(e, base + i) } else { gen_scalar_bits(e, rng, Cls::Mix) })
        .collect()
}

/// How the slice memory is provided.
#[derive(Clone, Copy, PartialEq, Eq, Debug)]
pub enum Mem {
    /// mmap'ed page between guard pages, canaries around the slice
    Guarded,
    /// exact-size heap allocation (the monitor is Miri or AddressSanitizer)
    Heap,
}

#[derive(Clone, Debug)]
pub struct SliceCase {
    pub ei: usize,
    pub write: bool,
    pub len: usize,
    pub k: usize,
    pub place: Place,
    pub round: usize,
}

impl SliceCase {
    fn label(&self, e: &SliceEntry) -> String {
        format!(
            "{}::{} len={} misalign={} place={:?} round={}",
            e.ty.name(),
            if self.write { e.wname } else { e.rname },
            self.len,
            self.k,
            self.place,
            self.round
        )
    }
    fn to_json(&self, e: &SliceEntry) -> J {
        json!({"kind": "slice", "type": e.ty.name(), "fn": if self.write { e.wname } else { e.rname }, "write": self.write,
               "len": self.len, "misalign": self.k, "place": format!("{:?}", self.place), "round": self.round})
    }
}

struct HeapBuf {
    buf: Vec<u64>, // 8-aligned backing
    off: usize,
    len_bytes: usize,
}

pub struct MemCtx {
    pub mem: Mem,
    pub arena: Option<Arena>,
}

impl MemCtx {
    pub fn new(mem: Mem) -> MemCtx {
        MemCtx { mem, arena: if mem == Mem::Guarded { Some(Arena::new()) } else { None } }
    }
}

fn fn_name(e: &SliceEntry, write: bool) -> String {
    format!("{}::{}", e.ty.name(), if write { e.wname } else { e.rname })
}

/// Execute one slice case. Returns (violation, did the documented panic fire).
pub fn run_slice_case(ctx: &mut MemCtx, ents: &[SliceEntry], c: &SliceCase, seed: u64) -> (Option<(String, String)>, bool) {
    let e = &ents[c.ei];
    let el = e.ty.elem();
    let es = es_of(el);
    let n = e.ty.n();
    let name = fn_name(e, c.write);
    let mut rng = Rng::new(seed, "c18m-content", (c.ei as u64) << 40 | (c.len as u64) << 24 | (c.k as u64) << 16 | c.round as u64);
    let pre = content(el, c.len, 50, c.round, &mut rng);
    let pre_bytes = to_bytes(el, &pre);
    let nbytes = c.len * es;
    arena::announce(&format!(
        "{{\"kind\":\"slice\",\"type\":\"{}\",\"fn\":\"{}\",\"write\":{},\"len\":{},\"misalign\":{},\"place\":\"{:?}\",\"round\":{}}}",
        e.ty.name(), if c.write { e.wname } else { e.rname }, c.write, c.len, c.k, c.place, c.round
    ));

    // value to write: pairwise distinct, hidden lanes poisoned with something recognisable
    let vbits = content(el, n, 1, c.round, &mut rng);
    let mut value = e.ty.from_bits(&vbits);
    if hidden::is_padded(&value) {
        let h: Vec<u32> = (0..4).map(|i| (900.0f32 + i as f32).to_bits()).collect();
        value = hidden::with_hidden_bits(&value, &h);
    }

    match ctx.mem {
        Mem::Guarded => {
            let a = ctx.arena.as_mut().unwrap();
            a.fill_canaries();
            let off = Arena::offset(c.place, c.len, es, c.k);
            a.write_bytes(off, &pre_bytes);
            let p = a.ptr(off);
            if c.write {
                let r = util::catch(|| (e.write)(&value, p, c.len));
                let after = from_bytes(el, &a.read_bytes(off, nbytes));
                let damaged = a.damaged_canary(off, nbytes);
                judge_write(&name, n, c.len, &pre, &vbits, &after, damaged, r.err(), el)
            } else {
                let r = util::catch(|| (e.read)(p, c.len));
                let after = a.read_bytes(off, nbytes);
                let damaged = a.damaged_canary(off, nbytes);
                if after != pre_bytes || damaged.is_some() {
                    return (Some((format!("read-wrote-memory:{name}"), format!("a read function modified caller memory (len {})", c.len))), false);
                }
                let (v, panicked) = judge_read(&name, n, c.len, &pre, &r, el);
                if v.is_some() || panicked {
                    return (v, panicked);
                }
                // twin run: everything that is not one of the first N elements changes
                let mut twin = pre.clone();
                for i in n..c.len {
                    twin[i] ^= 0x5555_5555;
                }
                a.write_bytes(off, &to_bytes(el, &twin));
                a.scramble_outside(off, nbytes);
                let r2 = util::catch(|| (e.read)(p, c.len));
                match (&r, &r2) {
                    (Ok(x), Ok(y)) if x.obs_vec() == y.obs_vec() => (None, false),
                    _ => (
                        Some((
                            format!("tail-dependent:{name}"),
                            format!("result changed when only memory beyond the first {n} elements changed (len {})", c.len),
                        )),
                        false,
                    ),
                }
            }
        }
        Mem::Heap => {
            // exact-size allocation ending at the slice end; `k` leading elements of slack
            let mut buf: Vec<u8> = vec![0xC5; (c.len + c.k) * es];
            buf[c.k * es..].copy_from_slice(&pre_bytes);
            let mut boxed = buf.into_boxed_slice();
            // the element type's alignment must hold for the slice start
            let base = boxed.as_mut_ptr();
            if (base as usize + c.k * es) % es != 0 {
                // allocator gave insufficient alignment for this element size; skip (heap mode only)
                return (None, false);
            }
            let p = unsafe { base.add(c.k * es) };
            if c.write {
                let r = util::catch(|| (e.write)(&value, p, c.len));
                let after = from_bytes(el, &boxed[c.k * es..]);
                let damaged = boxed[..c.k * es].iter().position(|b| *b != 0xC5);
                judge_write(&name, n, c.len, &pre, &vbits, &after, damaged, r.err(), el)
            } else {
                let r = util::catch(|| (e.read)(p, c.len));
                judge_read(&name, n, c.len, &pre, &r, el)
            }
        }
    }
}

fn render(e: Elem, bits: &[u64]) -> String {
    let v: Vec<String> = bits.iter().map(|b| scalar_val(e, *b).render()).collect();
    format!("[{}]", v.join(", "))
}

fn judge_write(
    name: &str,
    n: usize,
    len: usize,
    pre: &[u64],
    vbits: &[u64],
    after: &[u64],
    damaged: Option<usize>,
    panic: Option<util::Panic>,
    el: Elem,
) -> (Option<(String, String)>, bool) {
    if let Some(d) = damaged {
        return (
            Some((format!("write-outside:{name}"), format!("memory outside the {len}-element destination was modified (arena byte {d})"))),
            panic.is_some(),
        );
    }
    if len < n {
        match panic {
            None => (
                Some((format!("missing-panic:{name}"), format!("destination of {len} elements (need {n}) accepted; it now holds {}", render(el, after)))),
                false,
            ),
            Some(p) => {
                if after != pre {
                    (
                        Some((
                            format!("torn-write:{name}"),
                            format!(
                                "panicked ({}) on a {len}-element destination (need {n}) only after overwriting part of it: before {} after {}",
                                p.msg,
                                render(el, pre),
                                render(el, after)
                            ),
                        )),
                        true,
                    )
                } else {
                    (None, true)
                }
            }
        }
    } else {
        if let Some(p) = panic {
            return (Some((format!("unexpected-panic:{name}"), format!("destination of {len} elements (need {n}) : {} at {}", p.msg, p.loc))), true);
        }
        if after[..n] != vbits[..] {
            return (
                Some((format!("wrong-elements:{name}"), format!("wrote {} , value has {}", render(el, &after[..n]), render(el, vbits)))),
                false,
            );
        }
        if after[n..] != pre[n..] {
            return (
                Some((
                    format!("write-outside:{name}"),
                    format!("elements beyond the first {n} were modified: before {} after {}", render(el, &pre[n..]), render(el, &after[n..])),
                )),
                false,
            );
        }
        (None, false)
    }
}

fn judge_read(name: &str, n: usize, len: usize, pre: &[u64], r: &Result<Val, util::Panic>, el: Elem) -> (Option<(String, String)>, bool) {
    if len < n {
        match r {
            Err(_) => (None, true),
            Ok(v) => (Some((format!("missing-panic:{name}"), format!("slice of {len} elements (need {n}) accepted, result {}", v.render()))), false),
        }
    } else {
        match r {
            Err(p) => (Some((format!("unexpected-panic:{name}"), format!("slice of {len} elements (need {n}): {} at {}", p.msg, p.loc))), true),
            Ok(v) => {
                let got = v.glam_bits().map(|x| x.1).unwrap_or_default();
                if got[..] != pre[..n] {
                    (Some((format!("wrong-elements:{name}"), format!("read {} from a slice starting {}", render(el, &got), render(el, &pre[..n])))), false)
                } else {
                    (None, false)
                }
            }
        }
    }
}

// ---------------------------------------------------------------------------------------------
// index family

pub const fn idx_values(limit: usize) -> [usize; 11] {
    // small indices, the first invalid ones, usize::MAX, and values that are in range only after truncation to 32 / 8 bits
    [0, 1, 2, 3, limit, limit + 1, limit + 2, usize::MAX, 1usize << 32, (1usize << 32) + 1, 256]
}

#[derive(Clone, Debug)]
pub struct IndexCase {
    pub ei: usize,
    pub i: usize,
    pub j: usize,
    pub round: usize,
}

fn full_image(v: &Val) -> (Vec<u64>, Option<Vec<u32>>) {
    (v.glam_bits().map(|x| x.1).unwrap_or_default(), hidden::hidden_bits(v))
}

pub fn run_index_case(ents: &[IndexEntry], c: &IndexCase, seed: u64) -> (Option<(String, String)>, bool) {
    let e = &ents[c.ei];
    let el = e.ty.elem();
    let n = e.ty.n();
    let name = e.name;
    let mut rng = Rng::new(seed, "c18m-index", (c.ei as u64) << 40 | (c.i.min(255) as u64) << 24 | (c.j.min(255) as u64) << 16 | c.round as u64);
    let bits = content(el, n, 1, c.round, &mut rng);
    let aux = content(el, 4, 70, c.round, &mut rng);
    let mut recv = e.ty.from_bits(&bits);
    if hidden::is_padded(&recv) {
        let h: Vec<u32> = (0..4).map(|i| (900.0f32 + i as f32).to_bits()).collect();
        recv = hidden::with_hidden_bits(&recv, &h);
    }
    let before = full_image(&recv);
    arena::announce(&format!("{{\"kind\":\"index\",\"fn\":\"{}\",\"i\":{},\"j\":{},\"round\":{}}}", e.name, c.i as i64, c.j as i64, c.round));
    let r = util::catch(|| (e.call)(&mut recv, c.i, c.j, &aux));
    let after = full_image(&recv);
    let in_range = c.i < e.limit && (e.kind != IdxKind::Minor || c.j < e.limit);
    let idx = if e.kind == IdxKind::Minor { format!("({}, {})", c.i as i64, c.j as i64) } else { format!("{}", c.i as i64) };
    if !in_range {
        return match r {
            Ok(v) => (Some((format!("missing-panic:{name}"), format!("index {idx} (valid < {}) accepted, result {}", e.limit, v.render()))), false),
            Err(_) => {
                if before != after {
                    (
                        Some((
                            format!("torn-write:{name}"),
                            format!("panicked on index {idx} but the receiver changed: {} -> {}", render(el, &before.0), render(el, &after.0)),
                        )),
                        true,
                    )
                } else {
                    (None, true)
                }
            }
        };
    }
    let res = match r {
        Err(p) => return (Some((format!("unexpected-panic:{name}"), format!("index {idx} is in range: {} at {}", p.msg, p.loc))), true),
        Ok(v) => v,
    };
    let rows = |cols: usize| n / cols;
    let bad = |what: String| (Some((format!("wrong-elements:{name}"), what)), false);
    match e.kind {
        IdxKind::VecIndex | IdxKind::BTest => {
            if res.obs_vec() != vec![bits[c.i]] {
                return bad(format!("index {idx} of {} gave {}", render(el, &bits), res.render()));
            }
            if before.0 != after.0 {
                return bad("a read changed the receiver".to_string());
            }
        }
        IdxKind::VecIndexMut | IdxKind::BSet => {
            let mut want = bits.clone();
            want[c.i] = aux[0];
            if after.0 != want {
                return bad(format!("writing lane {idx} of {} gave {} (expected {})", render(el, &bits), render(el, &after.0), render(el, &want)));
            }
        }
        IdxKind::MatCol => {
            let r_ = rows(e.limit);
            let want = &bits[c.i * r_..c.i * r_ + r_];
            let got = res.glam_bits().map(|x| x.1).unwrap_or_default();
            if got != want {
                return bad(format!("col({idx}) gave {} expected {}", render(el, &got), render(el, want)));
            }
        }
        IdxKind::MatRow => {
            let r_ = rows(e.limit);
            let want: Vec<u64> = (0..e.limit).map(|col| bits[col * r_ + c.i]).collect();
            let got = res.glam_bits().map(|x| x.1).unwrap_or_default();
            if got != want {
                return bad(format!("row({idx}) gave {} expected {}", render(el, &got), render(el, &want)));
            }
        }
        IdxKind::MatColMut => {
            let r_ = rows(e.limit);
            let mut want = bits.clone();
            for k in 0..r_ {
                want[c.i * r_ + k] = aux[k];
            }
            if after.0 != want {
                return bad(format!("*col_mut({idx}) = .. gave {} expected {}", render(el, &after.0), render(el, &want)));
            }
        }
        IdxKind::Minor => {}
    }
    (None, false)
}

// ---------------------------------------------------------------------------------------------

pub fn all_slice_cases(ents: &[SliceEntry], rounds: usize, quick_subset: bool, heap: bool) -> Vec<SliceCase> {
    let mut v = Vec::new();
    for (ei, e) in ents.iter().enumerate() {
        let n = e.ty.n();
        for round in 0..rounds {
            for write in [false, true] {
                // 0..=N+4 as the property states, plus a few roomy lengths (fast paths for large destinations)
                let mut lens: Vec<usize> = (0..=n + 4).collect();
                for extra in [n + 8, 2 * n, 2 * n + 1, 32, 33] {
                    if !lens.contains(&extra) {
                        lens.push(extra);
                    }
                }
                for len in lens {
                    if quick_subset && !(len == 0 || len + 1 == n || len == n || len == n + 1 || len == 2 * n + 1) {
                        continue;
                    }
                    for place in PLACES {
                        if heap && place == Place::Head {
                            continue; // exact-size heap buffers: head/tail placements coincide
                        }
                        let ks: &[usize] = match place {
                            Place::Interior if heap => &[1],
                            Place::Interior => if quick_subset { &[0, 1] } else { &[0, 1, 2, 3] },
                            _ => &[0],
                        };
                        for &k in ks {
                            v.push(SliceCase { ei, write, len, k, place, round });
                        }
                    }
                }
            }
        }
    }
    v
}

pub fn all_index_cases(ents: &[IndexEntry], rounds: usize) -> Vec<IndexCase> {
    let mut v = Vec::new();
    for (ei, e) in ents.iter().enumerate() {
        for round in 0..rounds {
            let mut is: Vec<usize> = idx_values(e.limit).to_vec();
            is.sort();
            is.dedup();
            for &i in &is {
                if e.kind == IdxKind::Minor {
                    for &j in &is {
                        v.push(IndexCase { ei, i, j, round });
                    }
                } else {
                    v.push(IndexCase { ei, i, j: 0, round });
                }
            }
        }
    }
    v
}

fn replay_json(case: J, seed: u64, mem: Mem, class: &str, detail: &str) -> J {
    json!({
        "property": "C18", "part": "M", "config": util::CONFIG_TAG, "profile": util::profile_tag(), "seed": seed,
        "mem": format!("{:?}", mem), "case": case, "violation_class": class, "observed": detail,
    })
}

/// Single-threaded on purpose: the crash monitor names *the* announced case.
pub fn run(seed: u64, rounds: usize, mem: Mem, quick_subset: bool, types: Option<&str>) -> Summary {
    let mut sum = Summary::default();
    let mut sents = slice_entries();
    let mut ients = index_entries();
    if let Some(t) = types {
        let want: Vec<&str> = t.split(',').collect();
        sents.retain(|e| want.contains(&e.ty.name()));
        ients.retain(|e| want.contains(&e.ty.name()) || want.iter().any(|w| e.name.starts_with(&format!("{w}::"))));
    }
    let mut ctx = MemCtx::new(mem);
    for k in ["SHORT_SLICE", "MISALIGNED_SLICE", "GUARD_ADJACENT", "TAIL_CONTENT", "BAD_INDEX"] {
        sum.faults_fired.insert(k.into(), 0);
        sum.faults_effective.insert(k.into(), 0);
    }
    let scases = all_slice_cases(&sents, rounds, quick_subset, mem == Mem::Heap);
    for (ci, c) in scases.iter().enumerate() {
        let e = &sents[c.ei];
        let n = e.ty.n();
        let (viol, panicked) = run_slice_case(&mut ctx, &sents, c, seed);
        sum.evaluations += 1;
        sum.distinct.insert(format!("{}|{}|{}|{}|{:?}", fn_name(e, c.write), c.len, c.k, c.write, c.place));
        if c.len < n {
            sum.fired("SHORT_SLICE");
            if panicked {
                sum.effective("SHORT_SLICE");
            }
        }
        if c.k != 0 || (c.place == Place::Tail && (c.len * es_of(e.ty.elem())) % 16 != 0) {
            sum.fired("MISALIGNED_SLICE");
            sum.effective("MISALIGNED_SLICE");
        }
        if c.place != Place::Interior && mem == Mem::Guarded {
            sum.fired("GUARD_ADJACENT");
            sum.effective("GUARD_ADJACENT");
        }
        if !c.write && c.len > n && mem == Mem::Guarded {
            sum.fired("TAIL_CONTENT");
            sum.effective("TAIL_CONTENT");
        }
        if sum.samples.len() < 4 && ci % (scases.len() / 4 + 1) == 0 {
            sum.samples.push(c.to_json(e));
        }
        if let Some((class, detail)) = viol {
            let rj = replay_json(c.to_json(e), seed, mem, &class, &detail);
            sum.violations.push(Violation { class, detail, replay: rj });
        }
    }
    let icases = all_index_cases(&ients, rounds);
    for (ci, c) in icases.iter().enumerate() {
        let e = &ients[c.ei];
        let (viol, panicked) = run_index_case(&ients, c, seed);
        sum.evaluations += 1;
        sum.distinct.insert(format!("{}|{}|{}", e.name, c.i as i64, c.j as i64));
        let in_range = c.i < e.limit && (e.kind != IdxKind::Minor || c.j < e.limit);
        if !in_range {
            sum.fired("BAD_INDEX");
            if panicked {
                sum.effective("BAD_INDEX");
            }
        }
        let cj = || json!({"kind": "index", "fn": e.name, "i": c.i as i64, "j": c.j as i64, "round": c.round});
        if sum.samples.len() < 8 && ci % (icases.len() / 4 + 1) == 0 {
            sum.samples.push(cj());
        }
        if let Some((class, detail)) = viol {
            let rj = replay_json(cj(), seed, mem, &class, &detail);
            sum.violations.push(Violation { class, detail, replay: rj });
        }
    }
    sum.extra.insert("slice_functions".into(), json!(sents.len() * 2));
    sum.extra.insert("index_functions".into(), json!(ients.len()));
    sum.extra.insert("slice_cases".into(), json!(scases.len()));
    sum.extra.insert("index_cases".into(), json!(icases.len()));
    sum.extra.insert("mem".into(), json!(format!("{:?}", mem)));
    sum.extra.insert("exhaustive_over_lengths_offsets_placements".into(), json!(!quick_subset));
    sum
}

pub fn replay(j: &J) -> Option<(String, String)> {
    let seed = j["seed"].as_u64().unwrap();
    let mem = if j["mem"].as_str() == Some("Heap") { Mem::Heap } else { Mem::Guarded };
    let c = &j["case"];
    if c["kind"].as_str() == Some("slice") {
        let sents = slice_entries();
        let ty = c["type"].as_str().unwrap();
        let ei = sents.iter().position(|e| e.ty.name() == ty).expect("replay: unknown type");
        let place = match c["place"].as_str().unwrap() {
            "Tail" => Place::Tail,
            "Head" => Place::Head,
            _ => Place::Interior,
        };
        let sc = SliceCase {
            ei,
            write: c["write"].as_bool().unwrap(),
            len: c["len"].as_u64().unwrap() as usize,
            k: c["misalign"].as_u64().unwrap() as usize,
            place,
            round: c["round"].as_u64().unwrap() as usize,
        };
        let mut ctx = MemCtx::new(mem);
        run_slice_case(&mut ctx, &sents, &sc, seed).0
    } else {
        let ients = index_entries();
        let f = c["fn"].as_str().unwrap();
        let ei = ients.iter().position(|e| e.name == f).expect("replay: unknown function");
        let ic = IndexCase {
            ei,
            i: c["i"].as_i64().unwrap() as usize,
            j: c["j"].as_i64().unwrap() as usize,
            round: c["round"].as_u64().unwrap() as usize,
        };
        run_index_case(&ients, &ic, seed).0
    }
}
