//! Simulated serde carriers. They are exact (raw bit tokens, cannot round), scripted (every
//! element, error and early end comes from a materialised plan) and instrumented (every call
//! glam makes on them is recorded).

#![cfg(feature = "interop")]
#![allow(dead_code)]

use crate::val::Elem;
use serde::de::{self, DeserializeSeed, EnumAccess, IntoDeserializer, MapAccess, SeqAccess, Visitor};
use serde::ser::{self, Impossible, Serialize};
use std::fmt;

#[derive(Clone, Debug, PartialEq)]
pub enum Tok {
    Bool(bool),
    F32(u32),
    F64(u64),
    I8(i8),
    U8(u8),
    I16(i16),
    U16(u16),
    I32(i32),
    U32(u32),
    I64(i64),
    U64(u64),
    Str(String),
    Unit,
}

impl Tok {
    pub fn from_elem(e: Elem, bits: u64) -> Tok {
        match e {
            Elem::Bool => Tok::Bool(bits & 1 == 1),
            Elem::F32 => Tok::F32(bits as u32),
            Elem::F64 => Tok::F64(bits),
            Elem::I8 => Tok::I8(bits as i8),
            Elem::U8 => Tok::U8(bits as u8),
            Elem::I16 => Tok::I16(bits as i16),
            Elem::U16 => Tok::U16(bits as u16),
            Elem::I32 => Tok::I32(bits as i32),
            Elem::U32 => Tok::U32(bits as u32),
            Elem::I64 => Tok::I64(bits as i64),
            Elem::U64 => Tok::U64(bits),
            // serde's data model has no usize: it travels as u64
            Elem::Usize => Tok::U64(bits),
        }
    }
    pub fn render(&self) -> String {
        match self {
            Tok::F32(b) => format!("f32<0x{b:08x}>"),
            Tok::F64(b) => format!("f64<0x{b:016x}>"),
            o => format!("{o:?}"),
        }
    }
    pub fn digest(&self, d: &mut crate::util::Digest) {
        match self {
            Tok::Bool(b) => { d.push(1); d.push(*b as u64) }
            Tok::F32(b) => { d.push(2); d.push(*b as u64) }
            Tok::F64(b) => { d.push(3); d.push(*b) }
            Tok::I8(b) => { d.push(4); d.push(*b as u64) }
            Tok::U8(b) => { d.push(5); d.push(*b as u64) }
            Tok::I16(b) => { d.push(6); d.push(*b as u64) }
            Tok::U16(b) => { d.push(7); d.push(*b as u64) }
            Tok::I32(b) => { d.push(8); d.push(*b as u64) }
            Tok::U32(b) => { d.push(9); d.push(*b as u64) }
            Tok::I64(b) => { d.push(10); d.push(*b as u64) }
            Tok::U64(b) => { d.push(11); d.push(*b) }
            Tok::Str(s) => { d.push(12); d.push_str(s) }
            Tok::Unit => d.push(13),
        }
    }
}

#[derive(Clone, Debug, PartialEq)]
pub enum SimErr {
    /// the fault the plan injected at carrier call / element k
    Injected(usize),
    /// an error glam (or serde's primitive impls) raised through `Error::custom`
    Custom(String),
    /// carrier-level trailing data check, as serde_json / bincode do after the visitor returns
    Trailing(usize),
    /// carrier refuses a call outside its data model use
    Unsupported(&'static str),
}

impl fmt::Display for SimErr {
    fn fmt(&self, f: &mut fmt::Formatter<'_>) -> fmt::Result {
        write!(f, "{self:?}")
    }
}
impl std::error::Error for SimErr {}
impl ser::Error for SimErr {
    fn custom<T: fmt::Display>(msg: T) -> Self {
        SimErr::Custom(msg.to_string())
    }
}
impl de::Error for SimErr {
    fn custom<T: fmt::Display>(msg: T) -> Self {
        SimErr::Custom(msg.to_string())
    }
}

// ---------------------------------------------------------------------------------------------
// serializer side

#[derive(Clone, Debug, PartialEq)]
pub enum SerEv {
    TupleStruct { name: String, len: usize },
    Field(Tok),
    End,
    UnitVariant { name: String, index: u32, variant: String },
    Scalar(Tok),
}

#[derive(Default)]
pub struct Rec {
    pub events: Vec<SerEv>,
    /// number of carrier-level calls made so far (tuple_struct, each field, end)
    pub calls: usize,
    pub fail_at: Option<usize>,
    pub failed: bool,
    pub calls_after_failure: usize,
    pub human_readable: bool,
}

impl Rec {
    fn enter(&mut self) -> Result<(), SimErr> {
        if self.failed {
            self.calls_after_failure += 1;
            return Err(SimErr::Injected(usize::MAX));
        }
        let k = self.calls;
        self.calls += 1;
        if self.fail_at == Some(k) {
            self.failed = true;
            return Err(SimErr::Injected(k));
        }
        Ok(())
    }
}

pub struct TopSer<'a>(pub &'a mut Rec);
pub struct FieldSer<'a> {
    rec: &'a mut Rec,
}
/// serializer handed to each field: records exactly one scalar token
struct ScalarSer<'a> {
    out: &'a mut Option<Tok>,
}

macro_rules! scalar_ser_methods {
    ($($m:ident($t:ty) => $e:expr;)*) => {$(
        fn $m(self, v: $t) -> Result<(), SimErr> { *self.out = Some(($e)(v)); Ok(()) }
    )*};
}

impl<'a> ser::Serializer for ScalarSer<'a> {
    type Ok = ();
    type Error = SimErr;
    type SerializeSeq = Impossible<(), SimErr>;
    type SerializeTuple = Impossible<(), SimErr>;
    type SerializeTupleStruct = Impossible<(), SimErr>;
    type SerializeTupleVariant = Impossible<(), SimErr>;
    type SerializeMap = Impossible<(), SimErr>;
    type SerializeStruct = Impossible<(), SimErr>;
    type SerializeStructVariant = Impossible<(), SimErr>;
    scalar_ser_methods! {
        serialize_bool(bool) => Tok::Bool;
        serialize_i8(i8) => Tok::I8;
        serialize_i16(i16) => Tok::I16;
        serialize_i32(i32) => Tok::I32;
        serialize_i64(i64) => Tok::I64;
        serialize_u8(u8) => Tok::U8;
        serialize_u16(u16) => Tok::U16;
        serialize_u32(u32) => Tok::U32;
        serialize_u64(u64) => Tok::U64;
        serialize_f32(f32) => |v: f32| Tok::F32(v.to_bits());
        serialize_f64(f64) => |v: f64| Tok::F64(v.to_bits());
    }
    fn serialize_char(self, _: char) -> Result<(), SimErr> { Err(SimErr::Unsupported("char")) }
    fn serialize_str(self, v: &str) -> Result<(), SimErr> { *self.out = Some(Tok::Str(v.to_string())); Ok(()) }
    fn serialize_bytes(self, _: &[u8]) -> Result<(), SimErr> { Err(SimErr::Unsupported("bytes")) }
    fn serialize_none(self) -> Result<(), SimErr> { Err(SimErr::Unsupported("none")) }
    fn serialize_some<T: ?Sized + Serialize>(self, _: &T) -> Result<(), SimErr> { Err(SimErr::Unsupported("some")) }
    fn serialize_unit(self) -> Result<(), SimErr> { *self.out = Some(Tok::Unit); Ok(()) }
    fn serialize_unit_struct(self, _: &'static str) -> Result<(), SimErr> { Err(SimErr::Unsupported("unit_struct")) }
    fn serialize_unit_variant(self, _: &'static str, _: u32, _: &'static str) -> Result<(), SimErr> { Err(SimErr::Unsupported("unit_variant")) }
    fn serialize_newtype_struct<T: ?Sized + Serialize>(self, _: &'static str, _: &T) -> Result<(), SimErr> { Err(SimErr::Unsupported("newtype_struct")) }
    fn serialize_newtype_variant<T: ?Sized + Serialize>(self, _: &'static str, _: u32, _: &'static str, _: &T) -> Result<(), SimErr> { Err(SimErr::Unsupported("newtype_variant")) }
    fn serialize_seq(self, _: Option<usize>) -> Result<Self::SerializeSeq, SimErr> { Err(SimErr::Unsupported("nested seq")) }
    fn serialize_tuple(self, _: usize) -> Result<Self::SerializeTuple, SimErr> { Err(SimErr::Unsupported("nested tuple")) }
    fn serialize_tuple_struct(self, _: &'static str, _: usize) -> Result<Self::SerializeTupleStruct, SimErr> { Err(SimErr::Unsupported("nested tuple_struct")) }
    fn serialize_tuple_variant(self, _: &'static str, _: u32, _: &'static str, _: usize) -> Result<Self::SerializeTupleVariant, SimErr> { Err(SimErr::Unsupported("tuple_variant")) }
    fn serialize_map(self, _: Option<usize>) -> Result<Self::SerializeMap, SimErr> { Err(SimErr::Unsupported("map")) }
    fn serialize_struct(self, _: &'static str, _: usize) -> Result<Self::SerializeStruct, SimErr> { Err(SimErr::Unsupported("struct")) }
    fn serialize_struct_variant(self, _: &'static str, _: u32, _: &'static str, _: usize) -> Result<Self::SerializeStructVariant, SimErr> { Err(SimErr::Unsupported("struct_variant")) }
    fn is_human_readable(&self) -> bool { false }
}

impl<'a> ser::SerializeTupleStruct for FieldSer<'a> {
    type Ok = ();
    type Error = SimErr;
    fn serialize_field<T: ?Sized + Serialize>(&mut self, value: &T) -> Result<(), SimErr> {
        self.rec.enter()?;
        let mut slot = None;
        value.serialize(ScalarSer { out: &mut slot })?;
        match slot {
            Some(t) => {
                self.rec.events.push(SerEv::Field(t));
                Ok(())
            }
            None => Err(SimErr::Unsupported("field produced no scalar")),
        }
    }
    fn end(self) -> Result<(), SimErr> {
        self.rec.enter()?;
        self.rec.events.push(SerEv::End);
        Ok(())
    }
}

/// A flat-sequence carrier may equally be driven through `serialize_tuple` / `serialize_seq`;
/// we accept those as the same shape but record which entry point was used.
impl<'a> ser::SerializeTuple for FieldSer<'a> {
    type Ok = ();
    type Error = SimErr;
    fn serialize_element<T: ?Sized + Serialize>(&mut self, value: &T) -> Result<(), SimErr> {
        ser::SerializeTupleStruct::serialize_field(self, value)
    }
    fn end(self) -> Result<(), SimErr> {
        ser::SerializeTupleStruct::end(self)
    }
}
impl<'a> ser::SerializeSeq for FieldSer<'a> {
    type Ok = ();
    type Error = SimErr;
    fn serialize_element<T: ?Sized + Serialize>(&mut self, value: &T) -> Result<(), SimErr> {
        ser::SerializeTupleStruct::serialize_field(self, value)
    }
    fn end(self) -> Result<(), SimErr> {
        ser::SerializeTupleStruct::end(self)
    }
}

macro_rules! top_scalar {
    ($($m:ident($t:ty) => $e:expr;)*) => {$(
        fn $m(self, v: $t) -> Result<(), SimErr> { self.0.enter()?; self.0.events.push(SerEv::Scalar(($e)(v))); Ok(()) }
    )*};
}

impl<'a> ser::Serializer for TopSer<'a> {
    type Ok = ();
    type Error = SimErr;
    type SerializeSeq = FieldSer<'a>;
    type SerializeTuple = FieldSer<'a>;
    type SerializeTupleStruct = FieldSer<'a>;
    type SerializeTupleVariant = Impossible<(), SimErr>;
    type SerializeMap = Impossible<(), SimErr>;
    type SerializeStruct = Impossible<(), SimErr>;
    type SerializeStructVariant = Impossible<(), SimErr>;
    top_scalar! {
        serialize_bool(bool) => Tok::Bool;
        serialize_i8(i8) => Tok::I8;
        serialize_i16(i16) => Tok::I16;
        serialize_i32(i32) => Tok::I32;
        serialize_i64(i64) => Tok::I64;
        serialize_u8(u8) => Tok::U8;
        serialize_u16(u16) => Tok::U16;
        serialize_u32(u32) => Tok::U32;
        serialize_u64(u64) => Tok::U64;
        serialize_f32(f32) => |v: f32| Tok::F32(v.to_bits());
        serialize_f64(f64) => |v: f64| Tok::F64(v.to_bits());
    }
    fn serialize_char(self, _: char) -> Result<(), SimErr> { Err(SimErr::Unsupported("char")) }
    fn serialize_str(self, v: &str) -> Result<(), SimErr> { self.0.enter()?; self.0.events.push(SerEv::Scalar(Tok::Str(v.into()))); Ok(()) }
    fn serialize_bytes(self, _: &[u8]) -> Result<(), SimErr> { Err(SimErr::Unsupported("bytes")) }
    fn serialize_none(self) -> Result<(), SimErr> { Err(SimErr::Unsupported("none")) }
    fn serialize_some<T: ?Sized + Serialize>(self, _: &T) -> Result<(), SimErr> { Err(SimErr::Unsupported("some")) }
    fn serialize_unit(self) -> Result<(), SimErr> { Err(SimErr::Unsupported("unit")) }
    fn serialize_unit_struct(self, _: &'static str) -> Result<(), SimErr> { Err(SimErr::Unsupported("unit_struct")) }
    fn serialize_unit_variant(self, name: &'static str, index: u32, variant: &'static str) -> Result<(), SimErr> {
        self.0.enter()?;
        self.0.events.push(SerEv::UnitVariant { name: name.into(), index, variant: variant.into() });
        Ok(())
    }
    fn serialize_newtype_struct<T: ?Sized + Serialize>(self, _: &'static str, _: &T) -> Result<(), SimErr> { Err(SimErr::Unsupported("newtype_struct")) }
    fn serialize_newtype_variant<T: ?Sized + Serialize>(self, _: &'static str, _: u32, _: &'static str, _: &T) -> Result<(), SimErr> { Err(SimErr::Unsupported("newtype_variant")) }
    fn serialize_seq(self, len: Option<usize>) -> Result<FieldSer<'a>, SimErr> {
        self.0.enter()?;
        self.0.events.push(SerEv::TupleStruct { name: "<seq>".into(), len: len.unwrap_or(usize::MAX) });
        Ok(FieldSer { rec: self.0 })
    }
    fn serialize_tuple(self, len: usize) -> Result<FieldSer<'a>, SimErr> {
        self.0.enter()?;
        self.0.events.push(SerEv::TupleStruct { name: "<tuple>".into(), len });
        Ok(FieldSer { rec: self.0 })
    }
    fn serialize_tuple_struct(self, name: &'static str, len: usize) -> Result<FieldSer<'a>, SimErr> {
        self.0.enter()?;
        self.0.events.push(SerEv::TupleStruct { name: name.into(), len });
        Ok(FieldSer { rec: self.0 })
    }
    fn serialize_tuple_variant(self, _: &'static str, _: u32, _: &'static str, _: usize) -> Result<Self::SerializeTupleVariant, SimErr> { Err(SimErr::Unsupported("tuple_variant")) }
    fn serialize_map(self, _: Option<usize>) -> Result<Self::SerializeMap, SimErr> { Err(SimErr::Unsupported("map")) }
    fn serialize_struct(self, _: &'static str, _: usize) -> Result<Self::SerializeStruct, SimErr> { Err(SimErr::Unsupported("struct")) }
    fn serialize_struct_variant(self, _: &'static str, _: u32, _: &'static str, _: usize) -> Result<Self::SerializeStructVariant, SimErr> { Err(SimErr::Unsupported("struct_variant")) }
    fn is_human_readable(&self) -> bool { self.0.human_readable }
}

// ---------------------------------------------------------------------------------------------
// deserializer side

#[derive(Clone, Debug, PartialEq)]
pub enum Item {
    Tok(Tok),
    /// the element cannot be produced: the carrier returns an error here
    Fail,
}

#[derive(Clone, Copy, Debug, PartialEq, Eq, Hash)]
pub enum Entry {
    /// the honest carrier: `visit_seq`
    Seq,
    Map,
    Unit,
    F32,
    Bool,
    Str,
    None,
    U64,
    Bytes,
}

pub const HOSTILE_ENTRIES: [Entry; 8] = [Entry::Map, Entry::Unit, Entry::F32, Entry::Bool, Entry::Str, Entry::None, Entry::U64, Entry::Bytes];

#[derive(Clone, Debug)]
pub struct Script {
    pub entry: Entry,
    pub items: Vec<Item>,
    /// what `size_hint` claims (a carrier may lie or not know)
    pub size_hint: Option<usize>,
    pub human_readable: bool,
    /// whether this carrier checks for unread trailing elements after the visitor returns
    pub check_trailing: bool,
}

#[derive(Default, Debug)]
pub struct DeState {
    pub name: Option<String>,
    pub len: Option<usize>,
    pub entry_method: Option<&'static str>,
    /// elements successfully handed to glam
    pub consumed: usize,
    /// calls to next_element (including the one answered with None)
    pub next_calls: usize,
}

pub struct TopDe<'s> {
    pub script: &'s Script,
    pub state: &'s mut DeState,
}

struct Seq<'s> {
    script: &'s Script,
    state: &'s mut DeState,
    pos: usize,
}

impl<'de, 's> SeqAccess<'de> for Seq<'s> {
    type Error = SimErr;
    fn next_element_seed<T: DeserializeSeed<'de>>(&mut self, seed: T) -> Result<Option<T::Value>, SimErr> {
        self.state.next_calls += 1;
        if self.pos >= self.script.items.len() {
            return Ok(None);
        }
        let k = self.pos;
        match &self.script.items[k] {
            Item::Fail => Err(SimErr::Injected(k)),
            Item::Tok(t) => {
                self.pos += 1;
                let v = seed.deserialize(TokDe(t.clone()))?;
                self.state.consumed += 1;
                Ok(Some(v))
            }
        }
    }
    fn size_hint(&self) -> Option<usize> {
        self.script.size_hint
    }
}

struct EmptyMap;
impl<'de> MapAccess<'de> for EmptyMap {
    type Error = SimErr;
    fn next_key_seed<K: DeserializeSeed<'de>>(&mut self, _: K) -> Result<Option<K::Value>, SimErr> {
        Ok(None)
    }
    fn next_value_seed<V2: DeserializeSeed<'de>>(&mut self, _: V2) -> Result<V2::Value, SimErr> {
        Err(SimErr::Unsupported("value of empty map"))
    }
}

impl<'s> TopDe<'s> {
    fn dispatch<'de, V2: Visitor<'de>>(self, visitor: V2) -> Result<V2::Value, SimErr> {
        match self.script.entry {
            Entry::Seq => {
                let mut seq = Seq { script: self.script, state: self.state, pos: 0 };
                let v = visitor.visit_seq(&mut seq)?;
                let rest = seq.script.items.len() - seq.pos;
                if rest > 0 && seq.script.check_trailing {
                    return Err(SimErr::Trailing(rest));
                }
                Ok(v)
            }
            Entry::Map => visitor.visit_map(EmptyMap),
            Entry::Unit => visitor.visit_unit(),
            Entry::F32 => visitor.visit_f32(1.5),
            Entry::Bool => visitor.visit_bool(true),
            Entry::Str => visitor.visit_str("Vec3"),
            Entry::None => visitor.visit_none(),
            Entry::U64 => visitor.visit_u64(3),
            Entry::Bytes => visitor.visit_bytes(&[1, 2, 3, 4]),
        }
    }
}

impl<'de, 's> de::Deserializer<'de> for TopDe<'s> {
    type Error = SimErr;
    fn deserialize_any<V2: Visitor<'de>>(self, visitor: V2) -> Result<V2::Value, SimErr> {
        self.state.entry_method = Some("any");
        self.dispatch(visitor)
    }
    fn deserialize_tuple_struct<V2: Visitor<'de>>(self, name: &'static str, len: usize, visitor: V2) -> Result<V2::Value, SimErr> {
        self.state.entry_method = Some("tuple_struct");
        self.state.name = Some(name.to_string());
        self.state.len = Some(len);
        self.dispatch(visitor)
    }
    fn deserialize_tuple<V2: Visitor<'de>>(self, len: usize, visitor: V2) -> Result<V2::Value, SimErr> {
        self.state.entry_method = Some("tuple");
        self.state.len = Some(len);
        self.dispatch(visitor)
    }
    fn deserialize_seq<V2: Visitor<'de>>(self, visitor: V2) -> Result<V2::Value, SimErr> {
        self.state.entry_method = Some("seq");
        self.dispatch(visitor)
    }
    fn is_human_readable(&self) -> bool {
        self.script.human_readable
    }
    serde::forward_to_deserialize_any! {
        bool i8 i16 i32 i64 i128 u8 u16 u32 u64 u128 f32 f64 char str string bytes byte_buf option
        unit unit_struct newtype_struct map struct enum identifier ignored_any
    }
}

/// Self-describing scalar: whatever glam asks for, the visitor is told what the token *is*.
pub struct TokDe(pub Tok);

impl<'de> de::Deserializer<'de> for TokDe {
    type Error = SimErr;
    fn deserialize_any<V2: Visitor<'de>>(self, visitor: V2) -> Result<V2::Value, SimErr> {
        match self.0 {
            Tok::Bool(b) => visitor.visit_bool(b),
            Tok::F32(b) => visitor.visit_f32(f32::from_bits(b)),
            Tok::F64(b) => visitor.visit_f64(f64::from_bits(b)),
            Tok::I8(v) => visitor.visit_i8(v),
            Tok::U8(v) => visitor.visit_u8(v),
            Tok::I16(v) => visitor.visit_i16(v),
            Tok::U16(v) => visitor.visit_u16(v),
            Tok::I32(v) => visitor.visit_i32(v),
            Tok::U32(v) => visitor.visit_u32(v),
            Tok::I64(v) => visitor.visit_i64(v),
            Tok::U64(v) => visitor.visit_u64(v),
            Tok::Str(s) => visitor.visit_string(s),
            Tok::Unit => visitor.visit_unit(),
        }
    }
    serde::forward_to_deserialize_any! {
        bool i8 i16 i32 i64 i128 u8 u16 u32 u64 u128 f32 f64 char str string bytes byte_buf option
        unit unit_struct newtype_struct seq tuple tuple_struct map struct enum identifier ignored_any
    }
}

// ---------------------------------------------------------------------------------------------
// enum carrier for EulerRot

pub enum VariantId {
    Index(u32),
    Name(String),
    Bytes(Vec<u8>),
}

pub struct EnumDe(pub VariantId);

impl<'de> de::Deserializer<'de> for EnumDe {
    type Error = SimErr;
    fn deserialize_any<V2: Visitor<'de>>(self, _visitor: V2) -> Result<V2::Value, SimErr> {
        Err(SimErr::Unsupported("EnumDe::any"))
    }
    fn deserialize_enum<V2: Visitor<'de>>(self, _name: &'static str, _variants: &'static [&'static str], visitor: V2) -> Result<V2::Value, SimErr> {
        visitor.visit_enum(EnumAcc(self.0))
    }
    serde::forward_to_deserialize_any! {
        bool i8 i16 i32 i64 i128 u8 u16 u32 u64 u128 f32 f64 char str string bytes byte_buf option
        unit unit_struct newtype_struct seq tuple tuple_struct map struct identifier ignored_any
    }
}

struct EnumAcc(VariantId);
struct UnitOnly;

impl<'de> EnumAccess<'de> for EnumAcc {
    type Error = SimErr;
    type Variant = UnitOnly;
    fn variant_seed<S: DeserializeSeed<'de>>(self, seed: S) -> Result<(S::Value, UnitOnly), SimErr> {
        let v = match self.0 {
            VariantId::Index(i) => seed.deserialize(IntoDeserializer::<SimErr>::into_deserializer(i))?,
            VariantId::Name(s) => seed.deserialize(IntoDeserializer::<SimErr>::into_deserializer(s))?,
            VariantId::Bytes(b) => seed.deserialize(serde::de::value::BytesDeserializer::<SimErr>::new(&b))?,
        };
        Ok((v, UnitOnly))
    }
}

impl<'de> de::VariantAccess<'de> for UnitOnly {
    type Error = SimErr;
    fn unit_variant(self) -> Result<(), SimErr> {
        Ok(())
    }
    fn newtype_variant_seed<T: DeserializeSeed<'de>>(self, _: T) -> Result<T::Value, SimErr> {
        Err(SimErr::Unsupported("newtype variant"))
    }
    fn tuple_variant<V2: Visitor<'de>>(self, _: usize, _: V2) -> Result<V2::Value, SimErr> {
        Err(SimErr::Unsupported("tuple variant"))
    }
    fn struct_variant<V2: Visitor<'de>>(self, _: &'static [&'static str], _: V2) -> Result<V2::Value, SimErr> {
        Err(SimErr::Unsupported("struct variant"))
    }
}

