//! The padding-lane seam: reading and (re)writing the fourth lane of Vec3A / Mat3A / Affine3A
//! columns and BVec3A — *only through public API routes*. Under scalar-math the lane does not
//! exist and everything here is the identity.

#![allow(dead_code)]

use crate::val::Val;
use glam::*;

#[derive(Clone, Copy, Debug, PartialEq, Eq, Hash)]
pub enum Route {
    /// `Vec3A::from_vec4(Vec4::new(x, y, z, h))`
    FromVec4,
    /// `Vec3A::from(__m128)` (SSE2) / `Vec3A::from(f32x4)` (core-simd)
    FromRaw,
    /// `Mat3A::from_mat4` / `Affine3A::from_mat4` (keeps the 4th row); for Vec3A same as FromVec4
    FromMat4,
}

pub const ROUTES: [Route; 3] = [Route::FromVec4, Route::FromRaw, Route::FromMat4];

impl Route {
    pub fn name(self) -> &'static str {
        match self {
            Route::FromVec4 => "from_vec4",
            Route::FromRaw => "from_raw_register",
            Route::FromMat4 => "from_mat4",
        }
    }
    pub fn from_name(s: &str) -> Route {
        match s {
            "from_vec4" => Route::FromVec4,
            "from_raw_register" => Route::FromRaw,
            "from_mat4" => Route::FromMat4,
            _ => panic!("replay: unknown route {s}"),
        }
    }
}

pub const HAS_HIDDEN_LANE: bool = !cfg!(feature = "scalar-math");

#[cfg(all(not(feature = "scalar-math"), not(feature = "core-simd")))]
mod imp {
    use super::*;
    use core::arch::x86_64::*;
    pub fn v_lane3(v: Vec3A) -> u32 {
        let m: __m128 = v.into();
        let a: [u32; 4] = unsafe { core::mem::transmute(m) };
        a[3]
    }
    pub fn b_lane3(b: BVec3A) -> u32 {
        let m: __m128 = b.into();
        let a: [u32; 4] = unsafe { core::mem::transmute(m) };
        a[3]
    }
    pub fn v_from_raw(x: f32, y: f32, z: f32, h: f32) -> Vec3A {
        Vec3A::from(unsafe { _mm_set_ps(h, z, y, x) })
    }
}

#[cfg(all(not(feature = "scalar-math"), feature = "core-simd"))]
mod imp {
    use super::*;
    use core::simd::*;
    pub fn v_lane3(v: Vec3A) -> u32 {
        let m: f32x4 = v.into();
        m.to_array()[3].to_bits()
    }
    pub fn b_lane3(b: BVec3A) -> u32 {
        let m: mask32x4 = b.into();
        if m.to_array()[3] {
            0xffff_ffff
        } else {
            0
        }
    }
    pub fn v_from_raw(x: f32, y: f32, z: f32, h: f32) -> Vec3A {
        Vec3A::from(f32x4::from_array([x, y, z, h]))
    }
}

#[cfg(feature = "scalar-math")]
mod imp {
    use super::*;
    pub fn v_lane3(_: Vec3A) -> u32 {
        0
    }
    pub fn b_lane3(_: BVec3A) -> u32 {
        0
    }
    pub fn v_from_raw(x: f32, y: f32, z: f32, _h: f32) -> Vec3A {
        Vec3A::new(x, y, z)
    }
}

pub use imp::{b_lane3, v_lane3};

/// Same visible lanes, lane 3 := `bits`, through the chosen public route.
pub fn poison_vec3a(v: Vec3A, bits: u32, route: Route) -> Vec3A {
    if !HAS_HIDDEN_LANE {
        return v;
    }
    let [x, y, z] = v.to_array();
    let h = f32::from_bits(bits);
    let r = match route {
        Route::FromVec4 | Route::FromMat4 => Vec3A::from_vec4(Vec4::new(x, y, z, h)),
        Route::FromRaw => imp::v_from_raw(x, y, z, h),
    };
    // harness self-check: the route must not disturb visible lanes (else twin runs would be
    // comparing different programs and could raise a false alarm)
    let a = r.to_array();
    let b = v.to_array();
    for i in 0..3 {
        if a[i].to_bits() != b[i].to_bits() {
            eprintln!("glamsim: HARNESS ERROR: poison route {:?} changed visible lane {i}", route);
            std::process::exit(2);
        }
    }
    r
}

pub fn poison_mat3a(m: Mat3A, bits: [u32; 3], route: Route) -> Mat3A {
    if !HAS_HIDDEN_LANE {
        return m;
    }
    match route {
        Route::FromMat4 => {
            let c = |v: Vec3A, h: u32| {
                let [x, y, z] = v.to_array();
                Vec4::new(x, y, z, f32::from_bits(h))
            };
            let m4 = Mat4::from_cols(c(m.x_axis, bits[0]), c(m.y_axis, bits[1]), c(m.z_axis, bits[2]), Vec4::W);
            let r = Mat3A::from_mat4(m4);
            check_same(&m.to_cols_array(), &r.to_cols_array(), "Mat3A::from_mat4");
            r
        }
        _ => {
            // public fields
            let mut r = m;
            r.x_axis = poison_vec3a(m.x_axis, bits[0], route);
            r.y_axis = poison_vec3a(m.y_axis, bits[1], route);
            r.z_axis = poison_vec3a(m.z_axis, bits[2], route);
            r
        }
    }
}

pub fn poison_affine3a(a: Affine3A, bits: [u32; 4], route: Route) -> Affine3A {
    if !HAS_HIDDEN_LANE {
        return a;
    }
    match route {
        Route::FromMat4 => {
            let c = |v: Vec3A, h: u32| {
                let [x, y, z] = v.to_array();
                Vec4::new(x, y, z, f32::from_bits(h))
            };
            let m4 = Mat4::from_cols(
                c(a.matrix3.x_axis, bits[0]),
                c(a.matrix3.y_axis, bits[1]),
                c(a.matrix3.z_axis, bits[2]),
                c(a.translation, bits[3]),
            );
            let r = Affine3A::from_mat4(m4);
            check_same(&a.to_cols_array(), &r.to_cols_array(), "Affine3A::from_mat4");
            r
        }
        _ => {
            let mut r = a;
            r.matrix3 = poison_mat3a(a.matrix3, [bits[0], bits[1], bits[2]], route);
            r.translation = poison_vec3a(a.translation, bits[3], route);
            r
        }
    }
}

fn check_same(a: &[f32], b: &[f32], what: &str) {
    for i in 0..a.len() {
        if a[i].to_bits() != b[i].to_bits() {
            eprintln!("glamsim: HARNESS ERROR: poison route {what} changed visible element {i}");
            std::process::exit(2);
        }
    }
}

/// Set / clear the hidden lane of a BVec3A using only public operations: the mask (F,F,F,T) is
/// the comparison of two vectors that differ in lane 3 only.
pub fn poison_bvec3a(b: BVec3A, on: bool) -> BVec3A {
    if !HAS_HIDDEN_LANE {
        return b;
    }
    let hi = Vec3A::from_vec4(Vec4::new(0.0, 0.0, 0.0, 1.0));
    let lo = Vec3A::from_vec4(Vec4::new(0.0, 0.0, 0.0, 0.0));
    let h = hi.cmpgt(lo); // (F,F,F,T)
    let r = if on { b | h } else { b & !h };
    if r.bitmask() != b.bitmask() {
        // would itself be a C08 violation of `|`, `&`, `!` or bitmask; let the oracle see it
    }
    r
}

/// Hidden-lane bits of a value, per padded column, if the type has any in this build.
pub fn hidden_bits(v: &Val) -> Option<Vec<u32>> {
    if !HAS_HIDDEN_LANE {
        return None;
    }
    match v {
        Val::Vec3A(x) => Some(vec![v_lane3(*x)]),
        Val::Mat3A(m) => Some(vec![v_lane3(m.x_axis), v_lane3(m.y_axis), v_lane3(m.z_axis)]),
        Val::Affine3A(a) => Some(vec![
            v_lane3(a.matrix3.x_axis),
            v_lane3(a.matrix3.y_axis),
            v_lane3(a.matrix3.z_axis),
            v_lane3(a.translation),
        ]),
        Val::BVec3A(b) => Some(vec![b_lane3(*b)]),
        _ => None,
    }
}

pub fn with_hidden_bits(v: &Val, h: &[u32]) -> Val {
    if !HAS_HIDDEN_LANE {
        return v.clone();
    }
    match v {
        Val::Vec3A(x) => Val::Vec3A(poison_vec3a(*x, h[0], Route::FromVec4)),
        Val::Mat3A(m) => Val::Mat3A(poison_mat3a(*m, [h[0], h[1], h[2]], Route::FromVec4)),
        Val::Affine3A(a) => Val::Affine3A(poison_affine3a(*a, [h[0], h[1], h[2], h[3]], Route::FromVec4)),
        Val::BVec3A(b) => Val::BVec3A(poison_bvec3a(*b, h[0] != 0)),
        other => other.clone(),
    }
}

pub fn is_padded(v: &Val) -> bool {
    matches!(v, Val::Vec3A(_) | Val::Mat3A(_) | Val::Affine3A(_) | Val::BVec3A(_))
}
