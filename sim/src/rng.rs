//! The only source of randomness in the simulator. One integer (VERIF_SEED) seeds a SplitMix64
//! which derives an independent xoshiro256** stream per (domain, run index). Execution never
//! draws: programs and fault plans are materialised up front from these streams.

#[derive(Clone)]
pub struct SplitMix64(pub u64);

impl SplitMix64 {
    #[inline]
    pub fn next(&mut self) -> u64 {
        self.0 = self.0.wrapping_add(0x9E37_79B9_7F4A_7C15);
        let mut z = self.0;
        z = (z ^ (z >> 30)).wrapping_mul(0xBF58_476D_1CE4_E5B9);
        z = (z ^ (z >> 27)).wrapping_mul(0x94D0_49BB_1331_11EB);
        z ^ (z >> 31)
    }
}

#[derive(Clone)]
pub struct Rng {
    s: [u64; 4],
}

/// FNV-1a over a domain string, used to separate streams of different checks.
pub fn fnv(s: &str) -> u64 {
    let mut h = 0xcbf2_9ce4_8422_2325u64;
    for b in s.bytes() {
        h ^= b as u64;
        h = h.wrapping_mul(0x100_0000_01b3);
    }
    h
}

impl Rng {
    pub fn new(seed: u64, domain: &str, run: u64) -> Self {
        let mut sm = SplitMix64(seed ^ fnv(domain).rotate_left(17) ^ run.wrapping_mul(0xD6E8_FEB8_6659_FD93));
        // decorrelate a little more
        sm.next();
        let s = [sm.next(), sm.next(), sm.next(), sm.next()];
        Rng { s }
    }
    #[inline]
    pub fn next_u64(&mut self) -> u64 {
        let r = self.s[1].wrapping_mul(5).rotate_left(7).wrapping_mul(9);
        let t = self.s[1] << 17;
        self.s[2] ^= self.s[0];
        self.s[3] ^= self.s[1];
        self.s[1] ^= self.s[2];
        self.s[0] ^= self.s[3];
        self.s[2] ^= t;
        self.s[3] = self.s[3].rotate_left(45);
        r
    }
    #[inline]
    pub fn next_u32(&mut self) -> u32 {
        (self.next_u64() >> 32) as u32
    }
    /// uniform in 0..n (n > 0)
    #[inline]
    pub fn below(&mut self, n: usize) -> usize {
        debug_assert!(n > 0);
        ((self.next_u64() >> 11) % (n as u64)) as usize
    }
    /// inclusive range
    #[inline]
    pub fn range(&mut self, lo: usize, hi: usize) -> usize {
        lo + self.below(hi - lo + 1)
    }
    /// true with probability num/den
    #[inline]
    pub fn chance(&mut self, num: usize, den: usize) -> bool {
        self.below(den) < num
    }
    pub fn pick<'a, T>(&mut self, xs: &'a [T]) -> &'a T {
        &xs[self.below(xs.len())]
    }
    pub fn unit_f64(&mut self) -> f64 {
        (self.next_u64() >> 11) as f64 / (1u64 << 53) as f64
    }
}
