//! Dynamic values over the glam type vocabulary. A `Val` holds the *real* glam value (so that
//! whatever sits in a hidden padding lane flows from op to op exactly as in user code); its
//! *observation* is the visible-lane projection only, bit for bit.

#![allow(dead_code)]

use crate::rng::Rng;
use glam::*;
use serde_json::{json, Value as J};

#[derive(Clone, Copy, Debug, PartialEq, Eq, Hash, PartialOrd, Ord)]
pub enum Elem {
    Bool,
    F32,
    F64,
    I8,
    U8,
    I16,
    U16,
    I32,
    U32,
    I64,
    U64,
    Usize,
}

pub trait Scalar: Copy + 'static + core::fmt::Debug {
    const KIND: Elem;
    fn to_bits64(self) -> u64;
    fn from_bits64(b: u64) -> Self;
    fn wrap(self) -> Val;
    fn unwrap(v: &Val) -> Self;
}

macro_rules! impl_scalar_int {
    ($($t:ty, $k:ident);*) => {$(
        impl Scalar for $t {
            const KIND: Elem = Elem::$k;
            #[inline] fn to_bits64(self) -> u64 { self as u64 }
            #[inline] fn from_bits64(b: u64) -> Self { b as $t }
            #[inline] fn wrap(self) -> Val { Val::$k(self) }
            #[inline] fn unwrap(v: &Val) -> Self { match v { Val::$k(x) => *x, o => mismatch(stringify!($k), o) } }
        }
    )*};
}
impl_scalar_int!(i8, I8; u8, U8; i16, I16; u16, U16; i32, I32; u32, U32; i64, I64; u64, U64; usize, Usize);

impl Scalar for f32 {
    const KIND: Elem = Elem::F32;
    #[inline]
    fn to_bits64(self) -> u64 {
        self.to_bits() as u64
    }
    #[inline]
    fn from_bits64(b: u64) -> Self {
        f32::from_bits(b as u32)
    }
    #[inline]
    fn wrap(self) -> Val {
        Val::F32(self)
    }
    #[inline]
    fn unwrap(v: &Val) -> Self {
        match v {
            Val::F32(x) => *x,
            o => mismatch("F32", o),
        }
    }
}
impl Scalar for f64 {
    const KIND: Elem = Elem::F64;
    #[inline]
    fn to_bits64(self) -> u64 {
        self.to_bits()
    }
    #[inline]
    fn from_bits64(b: u64) -> Self {
        f64::from_bits(b)
    }
    #[inline]
    fn wrap(self) -> Val {
        Val::F64(self)
    }
    #[inline]
    fn unwrap(v: &Val) -> Self {
        match v {
            Val::F64(x) => *x,
            o => mismatch("F64", o),
        }
    }
}
impl Scalar for bool {
    const KIND: Elem = Elem::Bool;
    #[inline]
    fn to_bits64(self) -> u64 {
        self as u64
    }
    #[inline]
    fn from_bits64(b: u64) -> Self {
        b & 1 != 0
    }
    #[inline]
    fn wrap(self) -> Val {
        Val::Bool(self)
    }
    #[inline]
    fn unwrap(v: &Val) -> Self {
        match v {
            Val::Bool(x) => *x,
            o => mismatch("Bool", o),
        }
    }
}

/// Every glam value type: (name, element type, visible element count, kind).
/// kind: vec | quat | mat | bvec — decides which plain public accessors build / project it.
#[macro_export]
macro_rules! glam_types {
    ($m:ident) => {
        $m! {
            (Vec2, f32, 2, vec), (Vec3, f32, 3, vec), (Vec3A, f32, 3, vec), (Vec4, f32, 4, vec),
            (DVec2, f64, 2, vec), (DVec3, f64, 3, vec), (DVec4, f64, 4, vec),
            (I8Vec2, i8, 2, vec), (I8Vec3, i8, 3, vec), (I8Vec4, i8, 4, vec),
            (U8Vec2, u8, 2, vec), (U8Vec3, u8, 3, vec), (U8Vec4, u8, 4, vec),
            (I16Vec2, i16, 2, vec), (I16Vec3, i16, 3, vec), (I16Vec4, i16, 4, vec),
            (U16Vec2, u16, 2, vec), (U16Vec3, u16, 3, vec), (U16Vec4, u16, 4, vec),
            (IVec2, i32, 2, vec), (IVec3, i32, 3, vec), (IVec4, i32, 4, vec),
            (UVec2, u32, 2, vec), (UVec3, u32, 3, vec), (UVec4, u32, 4, vec),
            (I64Vec2, i64, 2, vec), (I64Vec3, i64, 3, vec), (I64Vec4, i64, 4, vec),
            (U64Vec2, u64, 2, vec), (U64Vec3, u64, 3, vec), (U64Vec4, u64, 4, vec),
            (USizeVec2, usize, 2, vec), (USizeVec3, usize, 3, vec), (USizeVec4, usize, 4, vec),
            (Quat, f32, 4, quat), (DQuat, f64, 4, quat),
            (Mat2, f32, 4, mat), (Mat3, f32, 9, mat), (Mat3A, f32, 9, mat), (Mat4, f32, 16, mat),
            (DMat2, f64, 4, mat), (DMat3, f64, 9, mat), (DMat4, f64, 16, mat),
            (Affine2, f32, 6, mat), (Affine3A, f32, 12, mat),
            (DAffine2, f64, 6, mat), (DAffine3, f64, 12, mat),
            (BVec2, bool, 2, bvec), (BVec3, bool, 3, bvec), (BVec4, bool, 4, bvec),
            (BVec3A, bool, 3, bvec), (BVec4A, bool, 4, bvec)
        }
    };
}

pub trait GlamTy: Copy + 'static {
    type E: Scalar;
    const N: usize;
    const NAME: &'static str;
    const ID: TyId;
    fn from_elems(e: &[Self::E]) -> Self;
    fn to_elems(&self) -> Vec<Self::E>;
}

macro_rules! from_elems_impl {
    (vec, $T:ident, $E:ty, $N:expr, $e:ident) => {
        $T::from_array(<[$E; $N]>::try_from($e).expect("harness: wrong element count"))
    };
    (quat, $T:ident, $E:ty, $N:expr, $e:ident) => {
        $T::from_array(<[$E; $N]>::try_from($e).expect("harness: wrong element count"))
    };
    (mat, $T:ident, $E:ty, $N:expr, $e:ident) => {
        $T::from_cols_array(&<[$E; $N]>::try_from($e).expect("harness: wrong element count"))
    };
    (bvec, $T:ident, $E:ty, $N:expr, $e:ident) => {
        $T::from_array(<[$E; $N]>::try_from($e).expect("harness: wrong element count"))
    };
}
macro_rules! to_elems_impl {
    (vec, $s:ident, $E:ty, $N:expr) => {
        $s.to_array().to_vec()
    };
    (quat, $s:ident, $E:ty, $N:expr) => {
        $s.to_array().to_vec()
    };
    (mat, $s:ident, $E:ty, $N:expr) => {
        $s.to_cols_array().to_vec()
    };
    (bvec, $s:ident, $E:ty, $N:expr) => {{
        let a: [bool; $N] = (*$s).into();
        a.to_vec()
    }};
}

macro_rules! define_all {
    ($( ($T:ident, $E:ty, $N:expr, $K:ident) ),*) => {
        #[derive(Clone, Copy, Debug, PartialEq, Eq, Hash, PartialOrd, Ord)]
        pub enum TyId { $( $T ),* }

        pub const ALL_TYIDS: &[TyId] = &[ $( TyId::$T ),* ];

        impl TyId {
            pub fn name(self) -> &'static str { match self { $( TyId::$T => stringify!($T) ),* } }
            pub fn from_name(s: &str) -> Option<TyId> { match s { $( stringify!($T) => Some(TyId::$T), )* _ => None } }
            pub fn n(self) -> usize { match self { $( TyId::$T => $N ),* } }
            pub fn elem(self) -> Elem { match self { $( TyId::$T => <$E as Scalar>::KIND ),* } }
            /// Build from raw element bit patterns through the plain public constructor.
            pub fn from_bits(self, bits: &[u64]) -> Val {
                // arms are bare calls: the interpreter-friendly shape (Miri pays per local of the frame)
                match self { $( TyId::$T => from_bits_of::<$T>(bits) ),* }
            }
        }

        $(
            impl GlamTy for $T {
                type E = $E;
                const N: usize = $N;
                const NAME: &'static str = stringify!($T);
                const ID: TyId = TyId::$T;
                #[inline]
                fn from_elems(e: &[$E]) -> Self { from_elems_impl!($K, $T, $E, $N, e) }
                #[inline]
                fn to_elems(&self) -> Vec<$E> { to_elems_impl!($K, self, $E, $N) }
            }
            impl V for $T {
                #[inline] fn into_val(self) -> Val { Val::$T(self) }
                #[inline] fn from_val(v: &Val) -> Self { match v { Val::$T(x) => *x, o => mismatch(stringify!($T), o) } }
            }
        )*

        #[derive(Clone, Debug)]
        pub enum Val {
            Unit,
            Bool(bool), F32(f32), F64(f64), I8(i8), U8(u8), I16(i16), U16(u16), I32(i32), U32(u32),
            I64(i64), U64(u64), Usize(usize),
            Str(String),
            Euler(EulerRot),
            Arr(Vec<Val>),
            Tup(Vec<Val>),
            Opt(Option<Box<Val>>),
            Slice(Vec<Val>),
            $( $T($T) ),*
        }

        impl Val {
            /// (type id, visible element bits) for glam values.
            pub fn glam_bits(&self) -> Option<(TyId, Vec<u64>)> {
                match self {
                    $( Val::$T(x) => Some(bits_of::<$T>(x)), )*
                    _ => None,
                }
            }
        }
    };
}

#[inline(never)]
fn from_bits_of<T: GlamTy + V>(bits: &[u64]) -> Val {
    let e: Vec<T::E> = bits.iter().map(|b| <T::E as Scalar>::from_bits64(*b)).collect();
    T::from_elems(&e).into_val()
}

#[inline(never)]
fn bits_of<T: GlamTy>(x: &T) -> (TyId, Vec<u64>) {
    (T::ID, x.to_elems().into_iter().map(|e| e.to_bits64()).collect())
}

/// the wrong-variant path of every `from_val`, out of line: it sits in ~10 000 generated call sites
#[cold]
#[inline(never)]
pub fn mismatch(exp: &str, got: &Val) -> ! {
    panic!("harness: expected {} got {:?}", exp, got)
}

/// Conversion between Rust values of the vocabulary and `Val`.
pub trait V: Sized {
    fn into_val(self) -> Val;
    fn from_val(v: &Val) -> Self;
}

glam_types!(define_all);

macro_rules! impl_v_scalar {
    ($($t:ty),*) => {$(
        impl V for $t {
            #[inline] fn into_val(self) -> Val { <$t as Scalar>::wrap(self) }
            #[inline] fn from_val(v: &Val) -> Self { <$t as Scalar>::unwrap(v) }
        }
    )*};
}
impl_v_scalar!(bool, f32, f64, i8, u8, i16, u16, i32, u32, i64, u64, usize);

impl V for () {
    fn into_val(self) -> Val {
        Val::Unit
    }
    fn from_val(_: &Val) -> Self {}
}
impl V for String {
    fn into_val(self) -> Val {
        Val::Str(self)
    }
    fn from_val(v: &Val) -> Self {
        match v {
            Val::Str(s) => s.clone(),
            o => mismatch("Str", o),
        }
    }
}
impl V for EulerRot {
    fn into_val(self) -> Val {
        Val::Euler(self)
    }
    fn from_val(v: &Val) -> Self {
        match v {
            Val::Euler(e) => *e,
            o => mismatch("Euler", o),
        }
    }
}
impl<T: V, const N: usize> V for [T; N] {
    fn into_val(self) -> Val {
        Val::Arr(self.into_iter().map(V::into_val).collect())
    }
    fn from_val(v: &Val) -> Self {
        match v {
            Val::Arr(xs) if xs.len() == N => core::array::from_fn(|i| T::from_val(&xs[i])),
            o => mismatch("Arr", o),
        }
    }
}
impl<T: V> V for Vec<T> {
    fn into_val(self) -> Val {
        Val::Slice(self.into_iter().map(V::into_val).collect())
    }
    fn from_val(v: &Val) -> Self {
        match v {
            Val::Slice(xs) => xs.iter().map(T::from_val).collect(),
            o => mismatch("Slice", o),
        }
    }
}
impl<T: V> V for Option<T> {
    fn into_val(self) -> Val {
        Val::Opt(self.map(|x| Box::new(x.into_val())))
    }
    fn from_val(v: &Val) -> Self {
        match v {
            Val::Opt(x) => x.as_ref().map(|b| T::from_val(b)),
            o => mismatch("Opt", o),
        }
    }
}
macro_rules! impl_v_tuple {
    ($( ($($n:tt $T:ident),+) ),*) => {$(
        impl<$($T: V),+> V for ($($T,)+) {
            fn into_val(self) -> Val { Val::Tup(vec![$( self.$n.into_val() ),+]) }
            fn from_val(v: &Val) -> Self {
                match v { Val::Tup(xs) => ($( $T::from_val(&xs[$n]), )+), o => mismatch("Tup", o) }
            }
        }
    )*};
}
impl_v_tuple!((0 A, 1 B), (0 A, 1 B, 2 C), (0 A, 1 B, 2 C, 3 D));

pub const EULER_ALL: [EulerRot; 24] = [
    EulerRot::ZYX,
    EulerRot::ZXY,
    EulerRot::YXZ,
    EulerRot::YZX,
    EulerRot::XYZ,
    EulerRot::XZY,
    EulerRot::ZYZ,
    EulerRot::ZXZ,
    EulerRot::YXY,
    EulerRot::YZY,
    EulerRot::XYX,
    EulerRot::XZX,
    EulerRot::ZYXEx,
    EulerRot::ZXYEx,
    EulerRot::YXZEx,
    EulerRot::YZXEx,
    EulerRot::XYZEx,
    EulerRot::XZYEx,
    EulerRot::ZYZEx,
    EulerRot::ZXZEx,
    EulerRot::YXYEx,
    EulerRot::YZYEx,
    EulerRot::XYXEx,
    EulerRot::XZXEx,
];

/// Run-time type descriptor (generated op tables carry these as statics).
#[derive(Clone, Copy, Debug, PartialEq, Eq, Hash)]
pub enum Ty {
    Unit,
    S(Elem),
    Str,
    Euler,
    G(TyId),
    Arr(&'static Ty, usize),
    Tup(&'static [Ty]),
    Opt(&'static Ty),
    /// a caller-supplied slice of scalars
    Slice(Elem),
}

impl Ty {
    pub fn render(&self) -> String {
        match self {
            Ty::Unit => "()".into(),
            Ty::S(e) => format!("{:?}", e).to_lowercase(),
            Ty::Str => "String".into(),
            Ty::Euler => "EulerRot".into(),
            Ty::G(t) => t.name().into(),
            Ty::Arr(t, n) => format!("[{}; {}]", t.render(), n),
            Ty::Tup(ts) => format!("({})", ts.iter().map(|t| t.render()).collect::<Vec<_>>().join(", ")),
            Ty::Opt(t) => format!("Option<{}>", t.render()),
            Ty::Slice(e) => format!("[{}]", format!("{:?}", e).to_lowercase()),
        }
    }
    pub fn is_float_bearing(&self) -> bool {
        match self {
            Ty::S(Elem::F32) | Ty::S(Elem::F64) => true,
            Ty::G(t) => matches!(t.elem(), Elem::F32 | Elem::F64),
            Ty::Arr(t, _) | Ty::Opt(t) => t.is_float_bearing(),
            Ty::Tup(ts) => ts.iter().any(|t| t.is_float_bearing()),
            Ty::Slice(e) => matches!(e, Elem::F32 | Elem::F64),
            _ => false,
        }
    }
}

// ---------------------------------------------------------------------------------------------
// scalar value lattice

/// Special-value lattice for floats, by index. The first NUM_F_LATTICE entries are the lattice
/// proper; `gen_scalar_bits` also produces ordinary and random-bit values.
pub const F32_LATTICE: &[(&str, u32)] = &[
    ("zero", 0x0000_0000),
    ("neg-zero", 0x8000_0000),
    ("subnormal", 0x0000_0417),
    ("neg-subnormal", 0x8000_0417),
    ("min-positive", 0x0080_0000),
    ("tiny-sq-underflows", 0x0DA2_4260),  // 1e-30
    ("neg-tiny", 0x8DA2_4260),
    ("one", 0x3F80_0000),
    ("neg-one", 0xBF80_0000),
    ("huge-sq-overflows", 0x7149_F2CA),   // 1e30
    ("neg-huge", 0xF149_F2CA),
    ("max", 0x7F7F_FFFF),
    ("min", 0xFF7F_FFFF),
    ("inf", 0x7F80_0000),
    ("neg-inf", 0xFF80_0000),
    ("qnan", 0x7FC0_0000),
    ("snan", 0x7FA0_0001),
    ("neg-qnan", 0xFFC0_1234),
    // "interesting finite" values: angles that are exact multiples, halves, values one ulp around 1
    ("pi", 0x4049_0FDB),
    ("neg-pi", 0xC049_0FDB),
    ("half-pi", 0x3FC9_0FDB),
    ("tau", 0x40C9_0FDB),
    ("half", 0x3F00_0000),
    ("one-plus-ulp", 0x3F80_0001),
    ("one-minus-ulp", 0x3F7F_FFFF),
    ("epsilon", 0x3400_0000),
    ("neg-half-pi", 0xBFC9_0FDB),
    ("third-pi", 0x3F86_0A92),
];
pub const F64_LATTICE: &[(&str, u64)] = &[
    ("zero", 0x0000_0000_0000_0000),
    ("neg-zero", 0x8000_0000_0000_0000),
    ("subnormal", 0x0000_0000_0000_0417),
    ("neg-subnormal", 0x8000_0000_0000_0417),
    ("min-positive", 0x0010_0000_0000_0000),
    ("tiny-sq-underflows", 0x1687_3C2A_7D0F_5C5F), // ~1e-200
    ("neg-tiny", 0x9687_3C2A_7D0F_5C5F),
    ("one", 0x3FF0_0000_0000_0000),
    ("neg-one", 0xBFF0_0000_0000_0000),
    ("huge-sq-overflows", 0x6974_E718_D7D7_625A),  // ~1e200
    ("neg-huge", 0xE974_E718_D7D7_625A),
    ("max", 0x7FEF_FFFF_FFFF_FFFF),
    ("min", 0xFFEF_FFFF_FFFF_FFFF),
    ("inf", 0x7FF0_0000_0000_0000),
    ("neg-inf", 0xFFF0_0000_0000_0000),
    ("qnan", 0x7FF8_0000_0000_0000),
    ("snan", 0x7FF4_0000_0000_0001),
    ("neg-qnan", 0xFFF8_0000_0000_1234),
    ("pi", 0x4009_21FB_5444_2D18),
    ("neg-pi", 0xC009_21FB_5444_2D18),
    ("half-pi", 0x3FF9_21FB_5444_2D18),
    ("tau", 0x4019_21FB_5444_2D18),
    ("half", 0x3FE0_0000_0000_0000),
    ("one-plus-ulp", 0x3FF0_0000_0000_0001),
    ("one-minus-ulp", 0x3FEF_FFFF_FFFF_FFFF),
    ("epsilon", 0x3CB0_0000_0000_0000),
    ("neg-half-pi", 0xBFF9_21FB_5444_2D18),
    ("third-pi", 0x3FF0_C152_382D_7366),
];
pub const NUM_F_LATTICE: usize = 28;

/// How a scalar is drawn.
#[derive(Clone, Copy, Debug, PartialEq, Eq)]
pub enum Cls {
    /// lattice entry by index (floats); for ints maps onto {0,1,-1/MAX,MIN,MAX,...}
    Lattice(usize),
    /// small "ordinary" values: integers and halves in [-8, 8], never zero
    Ordinary,
    /// any bit pattern
    RandomBits,
    /// swarm mix: mostly ordinary, sometimes lattice, sometimes random bits
    Mix,
}

pub fn gen_scalar_bits(e: Elem, rng: &mut Rng, cls: Cls) -> u64 {
    let cls = match cls {
        Cls::Mix => match rng.below(10) {
            0..=5 => Cls::Ordinary,
            6..=8 => Cls::Lattice(rng.below(NUM_F_LATTICE)),
            _ => Cls::RandomBits,
        },
        c => c,
    };
    match e {
        Elem::Bool => match cls {
            Cls::Lattice(i) => (i & 1) as u64,
            _ => rng.next_u64() & 1,
        },
        Elem::F32 => match cls {
            Cls::Lattice(i) => F32_LATTICE[i % NUM_F_LATTICE].1 as u64,
            Cls::Ordinary => {
                let mut k = rng.range(1, 16) as f32 * 0.5;
                if rng.chance(1, 2) {
                    k = -k;
                }
                if rng.chance(1, 4) {
                    k += rng.unit_f64() as f32;
                }
                k.to_bits() as u64
            }
            _ => rng.next_u32() as u64,
        },
        Elem::F64 => match cls {
            Cls::Lattice(i) => F64_LATTICE[i % NUM_F_LATTICE].1,
            Cls::Ordinary => {
                let mut k = rng.range(1, 16) as f64 * 0.5;
                if rng.chance(1, 2) {
                    k = -k;
                }
                if rng.chance(1, 4) {
                    k += rng.unit_f64();
                }
                k.to_bits()
            }
            _ => rng.next_u64(),
        },
        Elem::Usize => match cls {
            // usize arguments are indices / counts: keep them small unless asked for lattice
            Cls::Lattice(i) => [0u64, 1, 2, 3, 4, 5, u64::MAX][i % 7],
            _ => rng.below(4) as u64,
        },
        _ => {
            let (bits, signed) = match e {
                Elem::I8 => (8, true),
                Elem::U8 => (8, false),
                Elem::I16 => (16, true),
                Elem::U16 => (16, false),
                Elem::I32 => (32, true),
                Elem::U32 => (32, false),
                Elem::I64 => (64, true),
                Elem::U64 => (64, false),
                _ => unreachable!(),
            };
            let mask = if bits == 64 { u64::MAX } else { (1u64 << bits) - 1 };
            let v: u64 = match cls {
                Cls::Lattice(i) => match i % 6 {
                    0 => 0,
                    1 => 1,
                    2 => u64::MAX,                                // -1 or MAX
                    3 => if signed { 1u64 << (bits - 1) } else { 0 }, // MIN
                    4 => if signed { (1u64 << (bits - 1)) - 1 } else { mask }, // MAX
                    _ => 2,
                },
                Cls::Ordinary => {
                    let k = rng.range(1, 9) as i64;
                    (if signed && rng.chance(1, 2) { -k } else { k }) as u64
                }
                _ => rng.next_u64(),
            };
            // store sign-extended for signed, zero-extended for unsigned, as `as u64` would
            let v = v & mask;
            if signed && bits < 64 && (v >> (bits - 1)) & 1 == 1 {
                v | !mask
            } else {
                v
            }
        }
    }
}

pub fn scalar_val(e: Elem, bits: u64) -> Val {
    match e {
        Elem::Bool => Val::Bool(bool::from_bits64(bits)),
        Elem::F32 => Val::F32(f32::from_bits64(bits)),
        Elem::F64 => Val::F64(f64::from_bits64(bits)),
        Elem::I8 => Val::I8(bits as i8),
        Elem::U8 => Val::U8(bits as u8),
        Elem::I16 => Val::I16(bits as i16),
        Elem::U16 => Val::U16(bits as u16),
        Elem::I32 => Val::I32(bits as i32),
        Elem::U32 => Val::U32(bits as u32),
        Elem::I64 => Val::I64(bits as i64),
        Elem::U64 => Val::U64(bits),
        Elem::Usize => Val::Usize(bits as usize),
    }
}

/// Draw a value of type `ty`. `slice_len` decides the length of caller slices.
pub fn gen_val(ty: &Ty, rng: &mut Rng, cls: Cls, slice_len: usize) -> Val {
    match ty {
        Ty::Unit => Val::Unit,
        Ty::S(e) => scalar_val(*e, gen_scalar_bits(*e, rng, cls)),
        Ty::Str => Val::Str(String::new()),
        Ty::Euler => Val::Euler(EULER_ALL[rng.below(24)]),
        Ty::G(t) => {
            let bits: Vec<u64> = (0..t.n()).map(|_| gen_scalar_bits(t.elem(), rng, cls)).collect();
            t.from_bits(&bits)
        }
        Ty::Arr(t, n) => Val::Arr((0..*n).map(|_| gen_val(t, rng, cls, slice_len)).collect()),
        Ty::Tup(ts) => Val::Tup(ts.iter().map(|t| gen_val(t, rng, cls, slice_len)).collect()),
        Ty::Opt(t) => {
            if rng.chance(1, 4) {
                Val::Opt(None)
            } else {
                Val::Opt(Some(Box::new(gen_val(t, rng, cls, slice_len))))
            }
        }
        Ty::Slice(e) => Val::Slice((0..slice_len).map(|_| scalar_val(*e, gen_scalar_bits(*e, rng, cls))).collect()),
    }
}

// ---------------------------------------------------------------------------------------------
// observation (visible projection), rendering, JSON

impl Val {
    /// Visible projection as 64-bit words, bit-exact. Hidden lanes are never read.
    pub fn obs(&self, out: &mut Vec<u64>) {
        match self {
            Val::Unit => out.push(0xFACE),
            Val::Bool(x) => out.push(*x as u64),
            Val::F32(x) => out.push(x.to_bits() as u64),
            Val::F64(x) => out.push(x.to_bits()),
            Val::I8(x) => out.push(*x as u64),
            Val::U8(x) => out.push(*x as u64),
            Val::I16(x) => out.push(*x as u64),
            Val::U16(x) => out.push(*x as u64),
            Val::I32(x) => out.push(*x as u64),
            Val::U32(x) => out.push(*x as u64),
            Val::I64(x) => out.push(*x as u64),
            Val::U64(x) => out.push(*x),
            Val::Usize(x) => out.push(*x as u64),
            Val::Str(s) => {
                out.push(s.len() as u64);
                for c in s.as_bytes().chunks(8) {
                    let mut w = [0u8; 8];
                    w[..c.len()].copy_from_slice(c);
                    out.push(u64::from_le_bytes(w));
                }
            }
            Val::Euler(e) => out.push(EULER_ALL.iter().position(|x| x == e).unwrap() as u64),
            Val::Arr(xs) | Val::Tup(xs) | Val::Slice(xs) => {
                out.push(xs.len() as u64);
                for x in xs {
                    x.obs(out);
                }
            }
            Val::Opt(None) => out.push(0x0000_4E4F_4E45),
            Val::Opt(Some(x)) => {
                out.push(0x0053_4F4D_45);
                x.obs(out);
            }
            g => {
                let (_, bits) = g.glam_bits().expect("glam value");
                out.extend(bits);
            }
        }
    }

    pub fn obs_vec(&self) -> Vec<u64> {
        let mut v = Vec::new();
        self.obs(&mut v);
        v
    }

    /// Human-readable visible projection (floats as hex bits + value).
    pub fn render(&self) -> String {
        fn sc(e: Elem, b: u64) -> String {
            match e {
                Elem::F32 => format!("{:?}<0x{:08x}>", f32::from_bits(b as u32), b as u32),
                Elem::F64 => format!("{:?}<0x{:016x}>", f64::from_bits(b), b),
                Elem::Bool => format!("{}", b & 1 == 1),
                Elem::I8 => format!("{}", b as i8),
                Elem::I16 => format!("{}", b as i16),
                Elem::I32 => format!("{}", b as i32),
                Elem::I64 => format!("{}", b as i64),
                _ => format!("{}", b),
            }
        }
        match self {
            Val::Unit => "()".into(),
            Val::Bool(x) => format!("{x}"),
            Val::F32(x) => sc(Elem::F32, x.to_bits() as u64),
            Val::F64(x) => sc(Elem::F64, x.to_bits()),
            Val::I8(x) => format!("{x}"),
            Val::U8(x) => format!("{x}"),
            Val::I16(x) => format!("{x}"),
            Val::U16(x) => format!("{x}"),
            Val::I32(x) => format!("{x}"),
            Val::U32(x) => format!("{x}"),
            Val::I64(x) => format!("{x}"),
            Val::U64(x) => format!("{x}"),
            Val::Usize(x) => format!("{x}"),
            Val::Str(s) => format!("{s:?}"),
            Val::Euler(e) => format!("{e:?}"),
            Val::Arr(xs) | Val::Slice(xs) => format!("[{}]", xs.iter().map(|x| x.render()).collect::<Vec<_>>().join(", ")),
            Val::Tup(xs) => format!("({})", xs.iter().map(|x| x.render()).collect::<Vec<_>>().join(", ")),
            Val::Opt(None) => "None".into(),
            Val::Opt(Some(x)) => format!("Some({})", x.render()),
            g => {
                let (t, bits) = g.glam_bits().unwrap();
                format!("{}[{}]", t.name(), bits.iter().map(|b| sc(t.elem(), *b)).collect::<Vec<_>>().join(", "))
            }
        }
    }

    /// JSON form used in replay files. Glam values carry visible element bits, plus the
    /// hidden-lane bits ("h") for the padded types so that a replay reproduces garbage lanes.
    pub fn to_json(&self) -> J {
        match self {
            Val::Unit => json!({"t": "unit"}),
            Val::Bool(x) => json!({"t": "bool", "v": x}),
            Val::F32(x) => json!({"t": "f32", "b": format!("0x{:08x}", x.to_bits())}),
            Val::F64(x) => json!({"t": "f64", "b": format!("0x{:016x}", x.to_bits())}),
            Val::I8(x) => json!({"t": "i8", "v": x}),
            Val::U8(x) => json!({"t": "u8", "v": x}),
            Val::I16(x) => json!({"t": "i16", "v": x}),
            Val::U16(x) => json!({"t": "u16", "v": x}),
            Val::I32(x) => json!({"t": "i32", "v": x}),
            Val::U32(x) => json!({"t": "u32", "v": x}),
            Val::I64(x) => json!({"t": "i64", "v": x}),
            Val::U64(x) => json!({"t": "u64", "v": x}),
            Val::Usize(x) => json!({"t": "usize", "v": *x as u64}),
            Val::Str(s) => json!({"t": "str", "v": s}),
            Val::Euler(e) => json!({"t": "euler", "v": EULER_ALL.iter().position(|x| x == e).unwrap()}),
            Val::Arr(xs) => json!({"t": "arr", "v": xs.iter().map(|x| x.to_json()).collect::<Vec<_>>()}),
            Val::Tup(xs) => json!({"t": "tup", "v": xs.iter().map(|x| x.to_json()).collect::<Vec<_>>()}),
            Val::Slice(xs) => json!({"t": "slice", "v": xs.iter().map(|x| x.to_json()).collect::<Vec<_>>()}),
            Val::Opt(None) => json!({"t": "none"}),
            Val::Opt(Some(x)) => json!({"t": "some", "v": x.to_json()}),
            g => {
                let (t, bits) = g.glam_bits().unwrap();
                let w = if matches!(t.elem(), Elem::F32 | Elem::U32 | Elem::I32) { 8 } else { 16 };
                let mut o = json!({"t": t.name(), "b": bits.iter().map(|b| {
                    let b = if w == 8 { *b & 0xffff_ffff } else { *b };
                    format!("0x{:0w$x}", b, w = w)
                }).collect::<Vec<_>>()});
                if let Some(h) = crate::hidden::hidden_bits(g) {
                    o["h"] = J::from(h.iter().map(|b| format!("0x{:08x}", b)).collect::<Vec<_>>());
                }
                o
            }
        }
    }

    pub fn from_json(j: &J) -> Val {
        let t = j["t"].as_str().expect("replay: value without type");
        let hex = |x: &J| crate::util::parse_hex(x.as_str().expect("replay: hex string"));
        let list = |x: &J| -> Vec<Val> { x.as_array().expect("replay: list").iter().map(Val::from_json).collect() };
        match t {
            "unit" => Val::Unit,
            "bool" => Val::Bool(j["v"].as_bool().unwrap()),
            "f32" => Val::F32(f32::from_bits(hex(&j["b"]) as u32)),
            "f64" => Val::F64(f64::from_bits(hex(&j["b"]))),
            "i8" => Val::I8(j["v"].as_i64().unwrap() as i8),
            "u8" => Val::U8(j["v"].as_u64().unwrap() as u8),
            "i16" => Val::I16(j["v"].as_i64().unwrap() as i16),
            "u16" => Val::U16(j["v"].as_u64().unwrap() as u16),
            "i32" => Val::I32(j["v"].as_i64().unwrap() as i32),
            "u32" => Val::U32(j["v"].as_u64().unwrap() as u32),
            "i64" => Val::I64(j["v"].as_i64().unwrap()),
            "u64" => Val::U64(j["v"].as_u64().unwrap()),
            "usize" => Val::Usize(j["v"].as_u64().unwrap() as usize),
            "str" => Val::Str(j["v"].as_str().unwrap().to_string()),
            "euler" => Val::Euler(EULER_ALL[j["v"].as_u64().unwrap() as usize]),
            "arr" => Val::Arr(list(&j["v"])),
            "tup" => Val::Tup(list(&j["v"])),
            "slice" => Val::Slice(list(&j["v"])),
            "none" => Val::Opt(None),
            "some" => Val::Opt(Some(Box::new(Val::from_json(&j["v"])))),
            name => {
                let id = TyId::from_name(name).unwrap_or_else(|| panic!("replay: unknown type {name}"));
                let mut bits: Vec<u64> = j["b"].as_array().unwrap().iter().map(hex).collect();
                // sign-extend narrow signed ints the way `as u64` stores them
                for b in bits.iter_mut() {
                    *b = match id.elem() {
                        Elem::I32 => (*b as u32) as i32 as i64 as u64,
                        _ => *b,
                    };
                }
                let v = id.from_bits(&bits);
                if let Some(h) = j.get("h").and_then(|h| h.as_array()) {
                    let hb: Vec<u32> = h.iter().map(|x| hex(x) as u32).collect();
                    crate::hidden::with_hidden_bits(&v, &hb)
                } else {
                    v
                }
            }
        }
    }
}
