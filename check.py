#!/usr/bin/env python3
"""Driver for the glam-rs deterministic-simulation checks (see DESIGN.md).

  check.py <ID> [--tier quick|thorough]     run the check for property ID (C08 C17 C18 C19)
  check.py --replay <file>                   re-execute a replay file in a fresh process
  check.py --setup                           build every configuration the quick tier needs
  check.py --selftest-determinism            determinism self-test only

Exit 0: property held on everything explored (KNOWN-FINDING lines may be printed).
Exit 1: violation; a line `VIOLATION property=<id> replay=<path>` is printed.
Exit 2: harness error (build failed, simulator crashed, replay did not reproduce ...) — never a verdict.

stdlib only. Everything is rebuilt from the working tree of $GLAM_REPO (default /repo) by cargo.
"""
import argparse, hashlib, json, os, shutil, subprocess, sys, time

VERIF = os.path.dirname(os.path.abspath(__file__))
SIM = os.path.join(VERIF, "sim")
REPO = os.environ.get("GLAM_REPO", "/repo")
TARGET_ROOT = os.environ.get("GLAMSIM_TARGET", os.path.join(VERIF, "target"))
DEFAULT_SEED = 20260927
NCPU = os.cpu_count() or 4


class HarnessError(Exception):
    pass


def log(*a):
    print("[check]", *a, file=sys.stderr, flush=True)


def base_env():
    env = dict(os.environ)
    env["CARGO_NET_OFFLINE"] = "true"
    env["RUST_BACKTRACE"] = "0"
    env.pop("RUSTFLAGS", None)
    env.pop("CARGO_TARGET_DIR", None)
    return env


def cpu_has(*flags):
    try:
        txt = open("/proc/cpuinfo").read()
    except OSError:
        return False
    line = next((l for l in txt.splitlines() if l.startswith("flags")), "")
    have = set(line.split())
    return all(f in have for f in flags)


# name -> (toolchain, cargo features, profile, rustflags)
CONFIGS = {
    "sse2-rel": dict(tc=None, features=["interop"], profile="release", rustflags=""),
    "sse2-dbg": dict(tc=None, features=["interop"], profile="dev", rustflags=""),
    "scalar": dict(tc=None, features=["interop", "scalar-math"], profile="release", rustflags=""),
    "coresimd": dict(tc="nightly", features=["interop", "core-simd"], profile="release", rustflags=""),
    "native": dict(tc=None, features=["interop"], profile="release", rustflags="-C target-feature=+fma,+avx2"),
}


def repo_tag():
    if REPO == "/repo":
        return ""
    return "alt-" + hashlib.sha1(os.path.abspath(REPO).encode()).hexdigest()[:10]


def manifest_path():
    """The tracked manifest points at /repo. For another tree (sensitivity runs on scratch
    copies) a sibling manifest is generated under the target root."""
    if REPO == "/repo":
        return os.path.join(SIM, "Cargo.toml")
    d = os.path.join(TARGET_ROOT, repo_tag(), "manifest")
    os.makedirs(os.path.join(d, ".cargo"), exist_ok=True)
    txt = open(os.path.join(SIM, "Cargo.toml")).read()
    txt = txt.replace('path = "/repo"', 'path = "%s"' % os.path.abspath(REPO))
    txt = txt.replace('path = "src/main.rs"', 'path = "%s"' % os.path.join(SIM, "src", "main.rs"))
    p = os.path.join(d, "Cargo.toml")
    if not os.path.exists(p) or open(p).read() != txt:
        open(p, "w").write(txt)
    shutil.copyfile(os.path.join(SIM, "Cargo.lock"), os.path.join(d, "Cargo.lock"))
    shutil.copyfile(os.path.join(SIM, ".cargo", "config.toml"), os.path.join(d, ".cargo", "config.toml"))
    return p


def target_dir(cfg):
    return os.path.join(TARGET_ROOT, repo_tag(), cfg)


_built = {}


def build(cfg, extra_env=None):
    """cargo build the simulator for one configuration from the current working tree."""
    key = (cfg, tuple(sorted((extra_env or {}).items())))
    if key in _built:
        return _built[key]
    c = CONFIGS[cfg]
    cmd = ["cargo"]
    if c["tc"]:
        cmd.append("+" + c["tc"])
    cmd += ["build", "--offline", "--manifest-path", manifest_path(), "--no-default-features",
            "--features", ",".join(c["features"]), "--target-dir", target_dir(cfg)]
    if c["profile"] == "release":
        cmd.append("--release")
    env = base_env()
    if c["rustflags"]:
        env["RUSTFLAGS"] = c["rustflags"]
    env.update(extra_env or {})
    t0 = time.time()
    p = subprocess.run(cmd, env=env, cwd=SIM, stdout=subprocess.PIPE, stderr=subprocess.STDOUT, text=True)
    if p.returncode != 0:
        tail = "\n".join(p.stdout.splitlines()[-60:])
        raise HarnessError("build of configuration %s failed:\n%s" % (cfg, tail))
    binp = os.path.join(target_dir(cfg), "release" if c["profile"] == "release" else "debug", "glamsim")
    log("built %s in %.1fs" % (cfg, time.time() - t0))
    _built[key] = binp
    return binp


def build_all(cfgs):
    """Build several configurations concurrently (each has its own target dir)."""
    from concurrent.futures import ThreadPoolExecutor
    with ThreadPoolExecutor(max_workers=max(1, len(cfgs))) as ex:
        futs = {c: ex.submit(build, c) for c in cfgs}
        errs = []
        for c, f in futs.items():
            try:
                f.result()
            except HarnessError as e:
                errs.append(str(e))
        if errs:
            raise HarnessError("\n".join(errs))


def run_sim(cfg, args, timeout=3600):
    """Run one simulator sub-command in a fresh process; returns its JSON output."""
    binp = build(cfg)
    outdir = os.path.join(TARGET_ROOT, repo_tag(), "out")
    os.makedirs(outdir, exist_ok=True)
    outp = os.path.join(outdir, "%s-%s-%d.json" % (cfg, args[0], os.getpid()))
    if os.path.exists(outp):
        os.unlink(outp)
    cmd = [binp] + [str(a) for a in args] + ["--out", outp]
    p = subprocess.run(cmd, env=base_env(), stdout=subprocess.PIPE, stderr=subprocess.PIPE, text=True, timeout=timeout)
    if p.returncode != 0 or not os.path.exists(outp):
        raise HarnessError("simulator %s %s exited %s:\n%s" % (cfg, " ".join(map(str, args)), p.returncode, p.stderr[-3000:]))
    j = json.load(open(outp))
    os.unlink(outp)
    return j


def available_configs(names):
    out, skipped = [], []
    for n in names:
        if n == "native" and not cpu_has("fma", "avx2"):
            skipped.append((n, "CPU lacks fma/avx2"))
            continue
        out.append(n)
    return out, skipped


# ------------------------------------------------------------------------------------------------
# known findings

def out_root():
    """Evidence and replays of runs against the real /repo live in /verif; runs against a scratch
    copy (sensitivity experiments) keep theirs next to that copy's build output."""
    return VERIF if REPO == "/repo" else os.path.join(TARGET_ROOT, repo_tag())


def load_known():
    p = os.path.join(VERIF, "known_findings.json")
    if not os.path.exists(p):
        return {"known": [], "fixed": []}
    return json.load(open(p))


def classify(prop, violations):
    """violations: list of dicts with class, detail, replay, config. Returns (known, new)."""
    kf = load_known()
    keys = {(k["property"], k["key"]): k for k in kf.get("known", [])}
    known, new = [], []
    for v in violations:
        k = keys.get((prop, v["class"]))
        if k is not None:
            known.append((k, v))
        else:
            new.append(v)
    return known, new


def write_replay(prop, v):
    d = os.path.join(out_root(), "replays")
    os.makedirs(d, exist_ok=True)
    rep = dict(v["replay"])
    rep["config"] = v["config"]
    h = hashlib.sha1(json.dumps(rep, sort_keys=True).encode()).hexdigest()[:10]
    p = os.path.join(d, "%s-%s-%s.json" % (prop, v["config"], h))
    json.dump(rep, open(p, "w"), indent=1)
    return p


def replay_file(path):
    """Re-execute a replay file in a fresh process of the configuration it names.
    Returns the simulator's verdict dict {reproduced, same_class, class, observed}."""
    rep = json.load(open(path))
    if rep.get("kind") == "cross-build":
        return rep, replay_cross_build(rep, path)
    cfg = rep.get("config")
    if cfg not in CONFIGS:
        raise HarnessError("replay names unknown configuration %r" % cfg)
    return rep, run_sim(cfg, ["replay", "--file", path])


def report(prop, all_violations, verify_replay=True):
    """Print KNOWN-FINDING / VIOLATION lines; returns exit code contribution."""
    # one representative per class (first configuration that showed it)
    by_class = {}
    for v in all_violations:
        by_class.setdefault(v["class"], v)
    known, new = classify(prop, list(by_class.values()))
    for k, v in known:
        print("KNOWN-FINDING: property=%s %s [%s] (%s)" % (prop, k["what"], v["class"], v["config"]))
    rc = 0
    for v in new:
        path = write_replay(prop, v)
        note = ""
        if verify_replay:
            try:
                _, res = replay_file(path)
                if not res.get("reproduced"):
                    note = "  (WARNING: replay in a fresh process gave %s)" % json.dumps(res)
            except HarnessError as e:
                note = "  (WARNING: replay failed to run: %s)" % e
        print("VIOLATION property=%s replay=%s" % (prop, path))
        print("  class: %s\n  config: %s\n  observed: %s%s" % (v["class"], v["config"], v["detail"], note))
        rc = 1
    return rc, [k["key"] for k, _ in known], [v["class"] for v in new]


def write_evidence(prop, tier, seed, level, coverage, assumptions, wall, nviol):
    d = os.path.join(out_root(), "evidence")
    os.makedirs(d, exist_ok=True)
    ev = {
        "property_id": prop, "tier": tier, "seed": seed, "level": level,
        "coverage": coverage, "assumptions": assumptions, "wall_s": round(wall, 2), "violations": nviol,
    }
    json.dump(ev, open(os.path.join(d, prop + ".json"), "w"), indent=1)


def merge_counts(dst, src):
    for k, v in src.items():
        dst[k] = dst.get(k, 0) + v


COMPONENTS = {
    "real_code": ["all of glam from the working tree of %s (rebuilt by cargo on every run)" % REPO,
                  "serde / serde_json / bytemuck / rkyv+bytecheck / mint crates", "core::fmt"],
    "simulated": ["serde Serializer / Deserializer / SeqAccess / EnumAccess token carriers", "fmt::Write sink",
                  "caller memory arena (length, alignment, guard pages, canaries)", "padding-lane injector",
                  "byte-image corrupter (bit flips, truncation)"],
    "not_present_in_glam": ["threads / scheduler", "clocks / timers (simulated time covered: none)", "network", "disk", "allocator"],
}


# ------------------------------------------------------------------------------------------------
# C19

def check_c19(tier, seed):
    t0 = time.time()
    cfgs, skipped = available_configs(["sse2-rel", "scalar", "coresimd"] + (["sse2-dbg", "native"] if tier == "thorough" else []))
    values = 8 if tier == "quick" else 400
    build_all(cfgs)
    results = {}
    for c in cfgs:
        results[c] = run_sim(c, ["c19", "--seed", seed, "--values", values, "--workers", NCPU])
    viols = []
    fired, effective, probes = {}, {}, {}
    evals, distinct = 0, 0
    for c, r in results.items():
        evals += r["evaluations"]
        distinct = max(distinct, r["distinct_nontrivial"])
        merge_counts(fired, r["faults_fired"])
        merge_counts(effective, r["faults_effective"])
        merge_counts(probes, r["probes"])
        for v in r["violations"]:
            v = dict(v)
            v["config"] = c
            viols.append(v)
    # cross-build: per-type digest of (token stream, serde_json text, byte images) must agree
    cross = {"compared_types": 0, "mismatching_types": []}
    ref_cfg = cfgs[0]
    for c in cfgs[1:]:
        common = sorted(set(results[ref_cfg]["digests"]) & set(results[c]["digests"]))
        cross["compared_types"] = max(cross["compared_types"], len(common))
        for t in common:
            if results[ref_cfg]["digests"][t] != results[c]["digests"][t]:
                cross["mismatching_types"].append([t, ref_cfg, c])
                viols.append(cross_build_violation(t, ref_cfg, c, seed, values))
        only = sorted(set(results[ref_cfg]["digests"]) ^ set(results[c]["digests"]))
        if only:
            cross.setdefault("types_not_common", {})[c] = only
    rc, known_keys, new_classes = report("C19", viols, verify_replay=True)
    stuck = sorted(k for k, v in effective.items() if v == 0)
    cov = {
        "evaluations": evals,
        "distinct_nontrivial": distinct,
        "rule": "a case is (type, fault plan, value); the plan space (every carrier call / element position / stored bit / "
                "truncation length of every type) is enumerated completely, values are seeded (masks: all 2^N). distinct = "
                "(type, plan) pairs whose injected fault actually reached glam code, or fault-free plans, counted once per "
                "configuration (max over configurations)",
        "exhaustive": False,
        "samples": results[ref_cfg]["samples"],
        "configurations_run": cfgs,
        "configurations_skipped": skipped,
        "fault_kinds_fired": fired,
        "fault_kinds_effective": effective,
        "fault_kinds_stuck_at_zero": stuck,
        "probes": probes,
        "cross_build": cross,
        "plans_enumerated_per_config": {c: r["extra"]["plans_enumerated"] for c, r in results.items()},
        "values_per_plan": values,
        "runs_per_hour": int(evals / max(time.time() - t0, 1e-9) * 3600),
        "simulated_time": "none - no clock, timer or deadline exists in glam",
        "components": COMPONENTS,
        "known_findings_seen": known_keys,
        "new_violation_classes": new_classes,
    }
    write_evidence("C19", tier, seed, "fault_enumeration", cov,
                   ["x86_64 little-endian host; NEON / wasm32 / spirv backends cannot be built here",
                    "the token carrier is exact by construction; serde_json is trusted only relative to its own element-wise output",
                    "values are sampled, fault positions are enumerated"],
                   time.time() - t0, len(new_classes))
    return rc


def cross_build_violation(t, ca, cb, seed, values):
    """Pinpoint the first value whose serialised forms differ between two builds."""
    fa = run_sim(ca, ["c19forms", "--type", t, "--seed", seed, "--values", values])["forms"]
    fb = run_sim(cb, ["c19forms", "--type", t, "--seed", seed, "--values", values])["forms"]
    for x, y in zip(fa, fb):
        if x["forms"] != y["forms"]:
            return {
                "class": "cross-build:%s" % t, "config": cb,
                "detail": "%s build: %s  /  %s build: %s" % (ca, json.dumps(x["forms"]), cb, json.dumps(y["forms"])),
                "replay": {"property": "C19", "kind": "cross-build", "type": t, "configs": [ca, cb], "seed": seed,
                           "value": x["value"], "violation_class": "cross-build:%s" % t,
                           "observed": {ca: x["forms"], cb: y["forms"]}},
            }
    return {
        "class": "cross-build:%s" % t, "config": cb,
        "detail": "per-type digests of %s differ between %s and %s but no single value's forms do (byte images?)" % (t, ca, cb),
        "replay": {"property": "C19", "kind": "cross-build", "type": t, "configs": [ca, cb], "seed": seed,
                   "violation_class": "cross-build:%s" % t, "values": values},
    }


def replay_cross_build(rep, path):
    ca, cb = rep["configs"]
    if "value" not in rep:
        raise HarnessError("cross-build replay without a pinpointed value; re-run the check")
    fa = run_sim(ca, ["c19forms", "--type", rep["type"], "--value-file", path])["forms"][0]["forms"]
    fb = run_sim(cb, ["c19forms", "--type", rep["type"], "--value-file", path])["forms"][0]["forms"]
    same = fa == fb
    return {"reproduced": (not same) and {ca: fa, cb: fb} == rep.get("observed"), "same_class": not same,
            "class": rep["violation_class"] if not same else None, "observed": {ca: fa, cb: fb}}


CHECKS = {"C19": check_c19}


def main():
    ap = argparse.ArgumentParser()
    ap.add_argument("prop", nargs="?")
    ap.add_argument("--tier", default=os.environ.get("VERIF_TIER", "quick"), choices=["quick", "thorough"])
    ap.add_argument("--replay")
    ap.add_argument("--setup", action="store_true")
    ap.add_argument("--seed", type=int, default=int(os.environ.get("VERIF_SEED", DEFAULT_SEED)))
    a = ap.parse_args()
    try:
        if a.setup:
            for c in available_configs(["sse2-rel", "sse2-dbg", "scalar", "coresimd"])[0]:
                build(c)
            return 0
        if a.replay:
            rep, res = replay_file(a.replay)
            print(json.dumps(res, indent=1))
            if res.get("reproduced") or res.get("same_class"):
                print("VIOLATION property=%s replay=%s" % (rep.get("property"), a.replay))
                if not res.get("reproduced"):
                    print("  (same violation class, different first observation)")
                return 1
            print("replay did not reproduce the violation on the current tree")
            return 0
        if a.prop not in CHECKS:
            print("usage: check.py {%s} [--tier quick|thorough]" % ",".join(sorted(CHECKS)), file=sys.stderr)
            return 2
        log("property %s tier %s seed %d repo %s" % (a.prop, a.tier, a.seed, REPO))
        return CHECKS[a.prop](a.tier, a.seed)
    except HarnessError as e:
        print("HARNESS-ERROR: %s" % e, file=sys.stderr)
        return 2
    except subprocess.TimeoutExpired as e:
        print("HARNESS-ERROR: timeout: %s" % e, file=sys.stderr)
        return 2


if __name__ == "__main__":
    sys.exit(main())
