#!/usr/bin/env python3
"""Driver for the glam-rs deterministic-simulation checks (see DESIGN.md).

  check.py <ID> [--tier quick|thorough]     run the check for property ID (C08 C17 C18 C19)
  check.py --replay <file>                   re-execute a replay file in a fresh process
  check.py --setup                           build every configuration the quick tier needs
  check.py --selftest-determinism            determinism self-test only

Exit 0: property held on everything explored (KNOWN-FINDING lines may be printed).
Exit 1: violation; a line `VIOLATION property=<id> replay=<path>` is printed.
Exit 2: harness error (build failed, simulator crashed, replay did not reproduce ...) — never a verdict.

stdlib only. Everything is rebuilt from the working tree of $GLAM_REPO (default /repo) by cargo.
"""
import argparse, hashlib, json, os, re, shutil, subprocess, sys, time

VERIF = os.path.dirname(os.path.abspath(__file__))
SIM = os.path.join(VERIF, "sim")
REPO = os.environ.get("GLAM_REPO", "/repo")
TARGET_ROOT = os.environ.get("GLAMSIM_TARGET", os.path.join(VERIF, "target"))
DEFAULT_SEED = 20260927
NCPU = os.cpu_count() or 4


class HarnessError(Exception):
    pass


def log(*a):
    print("[check]", *a, file=sys.stderr, flush=True)


def base_env():
    env = dict(os.environ)
    env["CARGO_NET_OFFLINE"] = "true"
    env["RUST_BACKTRACE"] = "0"
    # no incremental caches: they take 2-3 GB per configuration and a change to glam recompiles the whole crate anyway
    env["CARGO_INCREMENTAL"] = "0"
    env.pop("RUSTFLAGS", None)
    env.pop("CARGO_TARGET_DIR", None)
    return env


def cpu_has(*flags):
    try:
        txt = open("/proc/cpuinfo").read()
    except OSError:
        return False
    line = next((l for l in txt.splitlines() if l.startswith("flags")), "")
    have = set(line.split())
    return all(f in have for f in flags)


# name -> (toolchain, cargo features, profile, rustflags)
CONFIGS = {
    "sse2-rel": dict(tc=None, features=["std", "bytecheck", "interop"], profile="release", rustflags=""),
    "sse2-dbg": dict(tc=None, features=["std", "bytecheck", "interop"], profile="dev", rustflags=""),
    "scalar": dict(tc=None, features=["std", "bytecheck", "interop", "scalar-math"], profile="release", rustflags=""),
    "coresimd": dict(tc="nightly", features=["std", "bytecheck", "interop", "core-simd"], profile="release", rustflags=""),
    # rustflags of the two `native*` entries are filled in by native_rustflags(): +fma,+avx2 and every other
    # `target_feature = ".."` atom the working tree's sources mention that this CPU has
    "native": dict(tc=None, features=["std", "bytecheck", "interop"], profile="release", rustflags="-C target-feature=+fma,+avx2"),
    # cargo features that switch code paths are build-time inputs like target features: `fast-math` (together with the
    # target features, its cfg gates are conjunctions of the two) ...
    "native-fast": dict(tc=None, features=["std", "bytecheck", "interop", "fast-math"], profile="release", rustflags="-C target-feature=+fma,+avx2"),
    # ... and `cuda` (alignment attributes: changes size / padding of the 2- and 4-lane types in both layouts)
    # `debug-glam-assert`: the same assertions, compiled in only together with debug_assertions
    "sse2-dbg-assert": dict(tc=None, features=["std", "bytecheck", "interop", "debug-glam-assert"], profile="dev", rustflags=""),
    # the op table of the 27 integer vector types instead of the float one (same simulator, GLAMSIM_OPS selects the table)
    "int-rel": dict(tc=None, features=["std", "bytecheck", "interop"], profile="release", rustflags="", ops="int"),
    "int-dbg": dict(tc=None, features=["std", "bytecheck", "interop"], profile="dev", rustflags="", ops="int"),
    # glam without its default `std` feature (math through libm via `nostd-libm`): the `not(feature = "std")` arms
    "nostd": dict(tc=None, features=["interop", "bytecheck", "nostd-libm"], profile="release", rustflags=""),
    # rkyv without glam's `bytecheck` feature: the `not(feature = "bytecheck")` arm of impl_rkyv.rs
    "nocheck": dict(tc=None, features=["std", "interop"], profile="release", rustflags=""),
    # the scalar layout in the dev profile (debug_assertions x scalar-math)
    "scalar-dbg": dict(tc=None, features=["std", "bytecheck", "interop", "scalar-math"], profile="dev", rustflags=""),
    # feature variant x dev profile: overflow checks and debug assertions are build-time inputs that no cfg predicate names
    "coresimd-dbg": dict(tc="nightly", features=["std", "bytecheck", "interop", "core-simd"], profile="dev", rustflags=""),
    "native-fast-dbg": dict(tc=None, features=["std", "bytecheck", "interop", "fast-math"], profile="dev", rustflags="-C target-feature=+fma,+avx2"),
    "nostd-dbg": dict(tc=None, features=["interop", "bytecheck", "nostd-libm"], profile="dev", rustflags=""),
    "cuda": dict(tc=None, features=["std", "bytecheck", "interop", "cuda"], profile="release", rustflags=""),
    "scalar-cuda": dict(tc=None, features=["std", "bytecheck", "interop", "scalar-math", "cuda"], profile="release", rustflags=""),
    # glam's optional precondition assertions compiled in: an assertion that looks at a padding lane makes the
    # panic / no-panic outcome depend on it (C08 does not restrict itself to builds without glam-assert)
    "sse2-assert": dict(tc=None, features=["std", "bytecheck", "interop", "glam-assert"], profile="release", rustflags=""),
    # the `libm` math backend instead of std (src/f32/math.rs, src/f64/math.rs have a separate arm for it)
    "libm": dict(tc=None, features=["std", "bytecheck", "interop", "libm"], profile="release", rustflags=""),
}


# VERIF_THOROUGH_SCALE=<f> scales the sampled volumes of the C08 / C17 thorough tiers (default 1: full volume); used to
# walk through every thorough-tier code path quickly
THOROUGH_SCALE = float(os.environ.get("VERIF_THOROUGH_SCALE", "1") or 1)

# everything the four quick tiers build (the monitors - Miri, ASan - are built by the checks that use them)
QUICK_CONFIGS = ["sse2-rel", "sse2-dbg", "scalar", "scalar-dbg", "coresimd", "coresimd-dbg", "native-fast", "nostd", "nostd-dbg",
                 "sse2-assert", "sse2-dbg-assert", "cuda", "scalar-cuda", "nocheck", "int-rel", "int-dbg"]


def repo_tag():
    if REPO == "/repo":
        return ""
    return "alt-" + hashlib.sha1(os.path.abspath(REPO).encode()).hexdigest()[:10]


def manifest_path():
    """The tracked manifest points at /repo. For another tree (sensitivity runs on scratch
    copies) a sibling manifest is generated under the target root."""
    if REPO == "/repo":
        return os.path.join(SIM, "Cargo.toml")
    d = os.path.join(TARGET_ROOT, repo_tag(), "manifest")
    os.makedirs(os.path.join(d, ".cargo"), exist_ok=True)
    txt = open(os.path.join(SIM, "Cargo.toml")).read()
    txt = txt.replace('path = "/repo"', 'path = "%s"' % os.path.abspath(REPO))
    txt = txt.replace('path = "src/main.rs"', 'path = "%s"' % os.path.join(SIM, "src", "main.rs"))
    p = os.path.join(d, "Cargo.toml")
    if not os.path.exists(p) or open(p).read() != txt:
        open(p, "w").write(txt)
    shutil.copyfile(os.path.join(SIM, "Cargo.lock"), os.path.join(d, "Cargo.lock"))
    shutil.copyfile(os.path.join(SIM, ".cargo", "config.toml"), os.path.join(d, ".cargo", "config.toml"))
    return p


def target_dir(cfg):
    return os.path.join(TARGET_ROOT, repo_tag(), cfg)


BACKEND_FEATURE = {"coresimd-dbg": "core-simd", "native-fast-dbg": None, "nostd-dbg": None, "nocheck": None, "nostd": None, "scalar-dbg": "scalar-math", "int-rel": None, "int-dbg": None, "sse2-dbg-assert": None, "native-fast": None, "cuda": None, "scalar-cuda": "scalar-math", "libm": None, "sse2-assert": None, "sse2-rel": None, "sse2-dbg": None, "native": None, "scalar": "scalar-math", "coresimd": "core-simd",
                   "miri": None, "miri-int": None, "miri-rel": None, "miri-scalar": "scalar-math", "miri-coresimd": "core-simd", "asan": None}
_ops = {}
_ops_lock = __import__("threading").Lock()


def gen_ops(cfg):
    """rustdoc JSON of the working tree (same backend feature as cfg) -> ops_generated.rs via apigen."""
    feat = BACKEND_FEATURE[cfg]
    key = feat or "sse2"
    with _ops_lock:
        if key in _ops:
            return _ops[key]
        gen = os.path.join(TARGET_ROOT, repo_tag(), "gen", key)
        os.makedirs(gen, exist_ok=True)
        cmd = ["cargo", "+nightly", "rustdoc", "--offline", "--manifest-path", os.path.join(REPO, "Cargo.toml"), "--lib",
               "--target-dir", os.path.join(gen, "doc-target")]
        if feat:
            cmd += ["--features", feat]
        cmd += ["--", "-Z", "unstable-options", "--output-format", "json"]
        t0 = time.time()
        p = subprocess.run(cmd, env=base_env(), stdout=subprocess.PIPE, stderr=subprocess.STDOUT, text=True)
        js = os.path.join(gen, "doc-target", "doc", "glam.json")
        if p.returncode != 0 or not os.path.exists(js):
            raise HarnessError("rustdoc JSON for %s failed:\n%s" % (key, "\n".join(p.stdout.splitlines()[-40:])))
        tmp_rs, api = os.path.join(gen, "ops_generated.rs.new"), os.path.join(gen, "api.json")
        q = subprocess.run([sys.executable, os.path.join(VERIF, "apigen.py"), js, tmp_rs, api],
                           stdout=subprocess.PIPE, stderr=subprocess.STDOUT, text=True)
        if q.returncode != 0:
            raise HarnessError("apigen failed for %s:\n%s" % (key, q.stdout[-3000:]))
        rs = os.path.join(gen, "ops_generated.rs")
        if not os.path.exists(rs) or open(rs).read() != open(tmp_rs).read():
            os.replace(tmp_rs, rs)
        else:
            os.unlink(tmp_rs)
        log("api %s: %s (%.1fs)" % (key, q.stdout.strip().splitlines()[-1] if q.stdout.strip() else "", time.time() - t0))
        _ops[key] = (rs, json.load(open(api)))
        return _ops[key]


_built = {}


def build(cfg, extra_env=None):
    """cargo build the simulator for one configuration from the current working tree."""
    key = (cfg, tuple(sorted((extra_env or {}).items())))
    if key in _built:
        return _built[key]
    if cfg.startswith("native"):
        native_rustflags()
    c = CONFIGS[cfg]
    cmd = ["cargo"]
    if c["tc"]:
        cmd.append("+" + c["tc"])
    cmd += ["build", "--offline", "--manifest-path", manifest_path(), "--no-default-features",
            "--features", ",".join(c["features"]), "--target-dir", target_dir(cfg)]
    if c["profile"] == "release":
        cmd.append("--release")
    env = base_env()
    if c["rustflags"]:
        env["RUSTFLAGS"] = c["rustflags"]
    env["GLAMSIM_OPS"] = gen_ops(cfg)[0]
    env["GLAMSIM_INT"] = os.path.join(os.path.dirname(env["GLAMSIM_OPS"]), "int_generated.rs")
    if c.get("ops") == "int":
        env["GLAMSIM_OPS"] = os.path.join(os.path.dirname(env["GLAMSIM_OPS"]), "intops_generated.rs")
    env.update(extra_env or {})
    t0 = time.time()
    p = subprocess.run(cmd, env=env, cwd=SIM, stdout=subprocess.PIPE, stderr=subprocess.STDOUT, text=True)
    if p.returncode != 0:
        tail = "\n".join(p.stdout.splitlines()[-60:])
        raise HarnessError("build of configuration %s failed:\n%s" % (cfg, tail))
    binp = os.path.join(target_dir(cfg), "release" if c["profile"] == "release" else "debug", "glamsim")
    log("built %s in %.1fs" % (cfg, time.time() - t0))
    _built[key] = binp
    return binp


def build_all(cfgs):
    """Build several configurations concurrently (each has its own target dir)."""
    from concurrent.futures import ThreadPoolExecutor
    # at most six compilations at a time: each rustc of the generated op table takes 2-4 GB and 16 codegen threads
    with ThreadPoolExecutor(max_workers=max(1, min(6, len(cfgs)))) as ex:
        futs = {c: ex.submit(build, c) for c in cfgs}
        errs = []
        for c, f in futs.items():
            try:
                f.result()
            except HarnessError as e:
                errs.append(str(e))
        if errs:
            raise HarnessError("\n".join(errs))


def run_sim(cfg, args, timeout=3600):
    """Run one simulator sub-command in a fresh process; returns its JSON output."""
    binp = build(cfg)
    outdir = os.path.join(TARGET_ROOT, repo_tag(), "out")
    os.makedirs(outdir, exist_ok=True)
    outp = os.path.join(outdir, "%s-%s-%d-%s.json" % (cfg, args[0], os.getpid(), __import__("uuid").uuid4().hex[:10]))
    if os.path.exists(outp):
        os.unlink(outp)
    cmd = [binp] + [str(a) for a in args] + ["--out", outp]
    t0 = time.time()
    p = subprocess.run(cmd, env=base_env(), stdout=subprocess.PIPE, stderr=subprocess.PIPE, text=True, timeout=timeout)
    if time.time() - t0 > 5:
        log("  %s %s took %.1fs" % (cfg, args[0], time.time() - t0))
    if p.returncode == 77 and "GLAMSIM-CRASH" in p.stderr:
        line = [l for l in p.stderr.splitlines() if "GLAMSIM-CRASH" in l][-1]
        raise CrashFound(cfg, last_case(p.stderr), line.strip())
    if p.returncode != 0 or not os.path.exists(outp):
        raise HarnessError("simulator %s %s exited %s:\n%s" % (cfg, " ".join(map(str, args)), p.returncode, p.stderr[-3000:]))
    j = json.load(open(outp))
    os.unlink(outp)
    return j


class CrashFound(Exception):
    def __init__(self, cfg, case, what):
        self.cfg, self.case, self.what = cfg, case, what


def last_case(stderr):
    case = None
    for line in stderr.splitlines():
        if line.startswith("GLAMSIM-CASE "):
            case = line[len("GLAMSIM-CASE "):]
        elif "GLAMSIM-CRASH" in line and " case=" in line:
            case = line.split(" case=", 1)[1]
    try:
        return json.loads(case) if case else None
    except ValueError:
        return {"unparsed": case}


TYPE_GROUPS = [
    ["Vec3A", "BVec3A"], ["Vec4", "BVec4A"], ["Quat", "Mat2"], ["Mat3A"], ["Mat4"], ["Affine2", "Affine3A"],
    ["Vec2", "Vec3", "DVec2", "DVec3", "DVec4", "DQuat", "BVec2", "BVec3", "BVec4"], ["Mat3", "DMat2", "DMat3", "DMat4", "DAffine2", "DAffine3"],
    ["I8Vec2", "I8Vec3", "I8Vec4", "U8Vec2", "U8Vec3", "U8Vec4", "I16Vec2", "I16Vec3", "I16Vec4"],
    ["U16Vec2", "U16Vec3", "U16Vec4", "IVec2", "IVec3", "IVec4", "UVec2", "UVec3", "UVec4"],
    ["I64Vec2", "I64Vec3", "I64Vec4", "U64Vec2", "U64Vec3", "U64Vec4", "USizeVec2", "USizeVec3", "USizeVec4"],
]
SIMD_GROUPS = TYPE_GROUPS[:6] + [["Vec3", "DVec4", "DQuat", "DMat3", "BVec3"]]

# isolation off: the simulator writes its JSON result; deterministic floats: Miri otherwise perturbs sin/cos/... results
# at random, which would make twin runs of the *same* program differ (a false alarm of the harness, not of glam)
MIRI_FLAGS = "-Zmiri-disable-isolation -Zmiri-deterministic-floats"


def miri_cmd(cfg, args):
    feat = BACKEND_FEATURE[cfg]
    cmd = ["cargo", "+nightly", "miri", "run", "--offline", "--manifest-path", manifest_path(), "--no-default-features",
           "--target-dir", target_dir(cfg)]
    if cfg == "miri-rel":
        # cfg(not(debug_assertions)) paths: an uninitialised read there is visible to neither ASan nor the dev-profile interpreter
        cmd.append("--release")
    cmd += ["--features", "std" + ("," + feat if feat else "")]
    return cmd + ["--"] + [str(a) for a in args]


def miri_env(cfg):
    env = base_env()
    env["MIRIFLAGS"] = MIRI_FLAGS
    env["GLAMSIM_OPS"] = gen_ops(cfg)[0]
    env["GLAMSIM_INT"] = os.path.join(os.path.dirname(env["GLAMSIM_OPS"]), "int_generated.rs")
    if cfg == "miri-int":
        # the interpreter over the op table of the integer vector types
        env["GLAMSIM_OPS"] = os.path.join(os.path.dirname(env["GLAMSIM_OPS"]), "intops_generated.rs")
    # cargo-miri records the bin crate's build environment once and replays it at run time; cargo does not notice a changed
    # env!() input by itself. Invalidate the recorded invocation whenever the ops path is not the one recorded before.
    td = target_dir(cfg)
    stamp = os.path.join(td, "glamsim-ops-path.stamp")
    if os.path.isdir(td) and (not os.path.exists(stamp) or open(stamp).read() != env["GLAMSIM_OPS"]):
        for root, dirs, files in os.walk(td):
            for n in list(dirs) + files:
                if n.startswith("glamsim") and n != "glamsim-ops-path.stamp":
                    pth = os.path.join(root, n)
                    shutil.rmtree(pth, ignore_errors=True) if os.path.isdir(pth) else os.unlink(pth)
    os.makedirs(td, exist_ok=True)
    open(stamp, "w").write(env["GLAMSIM_OPS"])
    return env


def merge_results(rs):
    out = {"evaluations": 0, "violations_total": 0, "violations": [], "distinct_nontrivial": 0, "faults_fired": {}, "faults_effective": {},
           "probes": {}, "samples": [], "extra": {}, "digests": {}}
    for r in rs:
        out["evaluations"] += r["evaluations"]
        out["violations_total"] += r["violations_total"]
        out["violations"] += r["violations"]
        out["distinct_nontrivial"] += r["distinct_nontrivial"]
        merge_counts(out["faults_fired"], r.get("faults_fired", {}))
        merge_counts(out["faults_effective"], r.get("faults_effective", {}))
        out["samples"] += r.get("samples", [])[:1]
        out["extra"] = r.get("extra", {})
    return out


def run_monitored(cfg, cmds_envs, what):
    """Run several simulator processes of an external-monitor build (Miri / ASan) concurrently. A monitor abort
    (UB report, ASan report) raises CrashFound naming the last announced case."""
    from concurrent.futures import ThreadPoolExecutor
    outdir = os.path.join(TARGET_ROOT, repo_tag(), "out")
    os.makedirs(outdir, exist_ok=True)

    def one(i_cmd_env):
        i, (cmd, env) = i_cmd_env
        outp = os.path.join(outdir, "%s-%d-%d-%s.json" % (cfg, os.getpid(), i, __import__("uuid").uuid4().hex[:10]))
        if os.path.exists(outp):
            os.unlink(outp)
        p = subprocess.run(cmd + ["--out", outp], env=env, cwd=SIM, stdout=subprocess.PIPE, stderr=subprocess.PIPE, text=True, timeout=4 * 3600)
        if p.returncode != 0 or not os.path.exists(outp):
            err = p.stderr
            ub = [l for l in err.splitlines() if ("Undefined Behavior" in l or "AddressSanitizer" in l or "GLAMSIM-CRASH" in l
                                                    or "error: unsupported operation" in l or "memory leaked" in l)]
            if ub and not any("unsupported operation" in l for l in ub):
                raise CrashFound(cfg, last_case(err), ub[0].strip())
            raise HarnessError("%s run failed (exit %s):\n%s" % (what, p.returncode, "\n".join(
                [l for l in err.splitlines() if not l.startswith("GLAMSIM-CASE")][-40:])))
        j = json.load(open(outp))
        os.unlink(outp)
        return j

    t0 = time.time()
    with ThreadPoolExecutor(max_workers=NCPU) as ex:
        rs = list(ex.map(one, enumerate(cmds_envs)))
    if time.time() - t0 > 5 and len(cmds_envs) > 1:
        log("  %s: %d monitored process(es) took %.1fs" % (what + " " + cfg, len(cmds_envs), time.time() - t0))
    if len(rs) == 1 and "reproduced" in rs[0]:
        return rs[0]
    return merge_results(rs)


def run_miri_pool(cfg, labelled):
    """labelled: list of (label, args). All interpreter processes share one pool of NCPU workers. Returns
    {label: merged result} and {label: CrashFound} for labels whose process was aborted by the monitor."""
    from concurrent.futures import ThreadPoolExecutor
    env = miri_env(cfg)
    t0 = time.time()
    p = subprocess.run(miri_cmd(cfg, ["info"]), env=env, cwd=SIM, stdout=subprocess.PIPE, stderr=subprocess.STDOUT, text=True)
    if p.returncode != 0:
        raise HarnessError("miri build failed for %s:\n%s" % (cfg, "\n".join(p.stdout.splitlines()[-40:])))
    log("miri build %s in %.1fs" % (cfg, time.time() - t0))

    def one(job):
        label, args = job
        try:
            return label, run_monitored(cfg, [(miri_cmd(cfg, args), env)], "miri"), None
        except CrashFound as e:
            return label, None, e

    t0 = time.time()
    with ThreadPoolExecutor(max_workers=NCPU) as ex:
        outs = list(ex.map(one, labelled))
    log("  miri %s: %d interpreter processes took %.1fs" % (cfg, len(labelled), time.time() - t0))
    results, crashes = {}, {}
    for label, r, e in outs:
        if e is not None:
            crashes.setdefault(label, e)
        else:
            results.setdefault(label, []).append(r)
    return {k: merge_results(v) for k, v in results.items()}, crashes


def run_miri(cfg, args, groups=None):
    env = miri_env(cfg)
    # build once (cargo serialises on the target-dir lock anyway)
    t0 = time.time()
    p = subprocess.run(miri_cmd(cfg, ["info"]), env=env, cwd=SIM, stdout=subprocess.PIPE, stderr=subprocess.STDOUT, text=True)
    if p.returncode != 0:
        raise HarnessError("miri build failed for %s:\n%s" % (cfg, "\n".join(p.stdout.splitlines()[-40:])))
    log("miri build %s in %.1fs" % (cfg, time.time() - t0))
    if groups:
        jobs = [(miri_cmd(cfg, list(args) + ["--types", ",".join(g)]), env) for g in groups]
    elif args and isinstance(args[0], list):
        jobs = [(miri_cmd(cfg, a), env) for a in args]
    else:
        jobs = [(miri_cmd(cfg, args), env)]
    return run_monitored(cfg, jobs, "miri")


def asan_binary():
    env = base_env()
    env["RUSTFLAGS"] = "-Zsanitizer=address"
    env["GLAMSIM_OPS"] = gen_ops("asan")[0]
    env["GLAMSIM_INT"] = os.path.join(os.path.dirname(env["GLAMSIM_OPS"]), "int_generated.rs")
    cmd = ["cargo", "+nightly", "build", "--release", "--offline", "--manifest-path", manifest_path(), "--no-default-features",
           "--features", "std", "--target", "x86_64-unknown-linux-gnu", "--target-dir", target_dir("asan")]
    t0 = time.time()
    p = subprocess.run(cmd, env=env, cwd=SIM, stdout=subprocess.PIPE, stderr=subprocess.STDOUT, text=True)
    if p.returncode != 0:
        raise HarnessError("ASan build failed:\n%s" % "\n".join(p.stdout.splitlines()[-40:]))
    log("built asan in %.1fs" % (time.time() - t0))
    return os.path.join(target_dir("asan"), "x86_64-unknown-linux-gnu", "release", "glamsim")


def run_asan(args):
    binp = asan_binary()
    env = base_env()
    env["ASAN_OPTIONS"] = "detect_leaks=0:abort_on_error=0:halt_on_error=1"
    return run_monitored("asan", [([binp] + [str(a) for a in args] + ["--echo-cases"], env)], "asan")


_native = {}


def native_rustflags():
    """+fma,+avx2 plus every x86 target feature named in a cfg of the working tree's sources that this CPU supports
    (a code path behind `cfg(target_feature = "sse4.1")` is compiled in no default build)."""
    if "flags" in _native:
        return _native["flags"], _native["atoms"]
    atoms = set()
    for root, _, files in os.walk(os.path.join(REPO, "src")):
        for f in files:
            if f.endswith(".rs"):
                try:
                    atoms.update(re.findall(r'target_feature\s*=\s*"([A-Za-z0-9_.+-]+)"', open(os.path.join(root, f), errors="replace").read()))
                except OSError:
                    pass
    cpuname = {"sse4.1": "sse4_1", "sse4.2": "sse4_2", "lzcnt": "abm", "sse3": "pni", "pclmulqdq": "pclmulqdq"}
    feats, unsupported = ["fma", "avx2"], []
    for a in sorted(atoms):
        if a in ("sse", "sse2", "fma", "avx2", "simd128", "neon", "crt-static") or a in feats:
            continue
        (feats if cpu_has(cpuname.get(a, a)) else unsupported).append(a)
    _native["flags"] = "-C target-feature=" + ",".join("+" + f for f in feats)
    _native["atoms"] = {"in_source": sorted(atoms), "enabled": feats, "not_supported_by_this_cpu": unsupported}
    for c in ("native", "native-fast", "native-fast-dbg"):
        CONFIGS[c]["rustflags"] = _native["flags"]
    return _native["flags"], _native["atoms"]


def feature_atoms():
    """cargo features of glam named in a cfg of the sources, and the registered configuration that compiles each in"""
    atoms = set()
    for root, _, files in os.walk(os.path.join(REPO, "src")):
        for f in files:
            if f.endswith(".rs"):
                atoms.update(re.findall(r'feature\s*=\s*"([A-Za-z0-9_-]+)"', re.sub(r'target_feature\s*=\s*"[^"]*"', "", open(os.path.join(root, f), errors="replace").read())))
    interop = {"serde", "bytemuck", "mint", "rkyv", "approx"}
    where = {}
    for a in sorted(atoms):
        cfgs = [c for c, d in CONFIGS.items() if a in d["features"] or (a in interop and "interop" in d["features"])]
        where[a] = cfgs
    return where


def negated_feature_atoms():
    """cargo features that occur under not(..) in a cfg of the sources, and the configurations that leave each one OFF
    (so that the negative arm is compiled)"""
    neg = set()
    for root, _, files in os.walk(os.path.join(REPO, "src")):
        for f in files:
            if f.endswith(".rs"):
                txt = open(os.path.join(root, f), errors="replace").read()
                for m in re.finditer(r'not\(\s*(?:any|all)?\(?([^)]*)\)', txt):
                    neg.update(re.findall(r'(?<!target_)feature\s*=\s*"([A-Za-z0-9_-]+)"', m.group(1)))
    interop = {"serde", "bytemuck", "mint", "rkyv", "approx"}
    out = {}
    for a in sorted(neg):
        out[a] = [c for c, d in CONFIGS.items() if not (a in d["features"] or (a in interop and "interop" in d["features"]))]
    return out


# ------------------------------------------------------------------------------------------------
# cfg predicates: every `cfg(..)` / `cfg_attr(.., ..)` / `cfg!(..)` predicate of the working tree's sources is evaluated
# under each registered configuration; a predicate that is true in none of them guards code that no build under test
# contains. Where such a predicate is satisfiable on this host, a configuration satisfying it is synthesised and run.

TF_IMPLIES = {"avx512f": ["avx2", "fma"], "avx2": ["avx"], "fma": ["avx"], "avx": ["sse4.2"], "sse4.2": ["sse4.1"], "sse4.1": ["ssse3"], "ssse3": ["sse3"],
              "sse3": ["sse2"], "sse2": ["sse"], "bmi2": [], "bmi1": [], "lzcnt": [], "popcnt": [], "f16c": ["avx"]}
TF_CPUNAME = {"sse4.1": "sse4_1", "sse4.2": "sse4_2", "lzcnt": "abm", "sse3": "pni"}
GLAM_FEATURE_OF = {"std": ["std"], "interop": ["serde", "bytemuck", "mint", "rkyv", "approx"], "bytecheck": ["bytecheck"], "scalar-math": ["scalar-math"],
                   "core-simd": ["core-simd"], "glam-assert": ["glam-assert"], "debug-glam-assert": ["debug-glam-assert"], "libm": ["libm"],
                   "nostd-libm": ["nostd-libm"], "fast-math": ["fast-math"], "cuda": ["cuda"]}
# predicates nothing here can or should satisfy, with the reason
CFG_EXEMPT_ATOMS = {("flag", "test"): "glam's own unit tests",
                    ("feature", "rand"): "optional `rand` distributions: code that no claimed property's workload reaches",
                    ("feature", "$feature"): "macro variable"}


def _cfg_extract(txt):
    out = []
    for m in re.finditer(r'\bcfg(_attr)?!?\s*\(', txt):
        i = m.end(); depth = 1; j = i
        while j < len(txt) and depth > 0:
            c = txt[j]
            if c == '(':
                depth += 1
            elif c == ')':
                depth -= 1
            elif c == '"':
                j = txt.index('"', j + 1)
            j += 1
        body = txt[i:j - 1]
        if m.group(1):
            d = 0
            for k, c in enumerate(body):
                if c == '(':
                    d += 1
                elif c == ')':
                    d -= 1
                elif c == ',' and d == 0:
                    body = body[:k]
                    break
        out.append(re.sub(r'\s+', ' ', body.strip()))
    return out


def _cfg_blank(txt):
    """comments and ordinary string / char literals replaced by spaces (same length); strings right after '=' (cfg values) stay"""
    out = list(txt); i = 0; n = len(txt)
    while i < n:
        c = txt[i]
        if txt.startswith("//", i):
            j = txt.find("\n", i); j = n if j < 0 else j
            for k in range(i, j):
                out[k] = " "
            i = j
        elif txt.startswith("/*", i):
            j = txt.find("*/", i + 2); j = n if j < 0 else j + 2
            for k in range(i, j):
                if out[k] != "\n":
                    out[k] = " "
            i = j
        elif c == '"':
            j = i + 1
            while j < n and txt[j] != '"':
                j += 2 if txt[j] == "\\" else 1
            k0 = i - 1
            while k0 >= 0 and txt[k0] in " \t":
                k0 -= 1
            if not (k0 >= 0 and txt[k0] == "="):
                for k in range(i + 1, min(j, n)):
                    if out[k] != "\n":
                        out[k] = " "
            i = j + 1
        elif c == "'" and i + 2 < n and (txt[i + 2] == "'" or (txt[i + 1] == "\\" and txt.find("'", i + 2) in range(i + 2, i + 8))):
            j = txt.find("'", i + 2)
            for k in range(i + 1, j):
                out[k] = " "
            i = j + 1
        else:
            i += 1
    return "".join(out)


def _balanced(txt, i, open_c="(", close_c=")"):
    depth = 0; n = len(txt)
    while i < n:
        c = txt[i]
        if c == open_c:
            depth += 1
        elif c == close_c:
            depth -= 1
            if depth == 0:
                return i + 1
        i += 1
    return n


def _cfg_regions(txt):
    """[(predicate, start, end, gated module name or None)] for every outer #[cfg(P)] attribute of (blanked) source text"""
    out = []
    for m in re.finditer(r'#\s*\[\s*cfg\s*\(', txt):
        p0 = m.end() - 1
        p1 = _balanced(txt, p0)
        pred = re.sub(r'\s+', ' ', txt[p0 + 1:p1 - 1].strip())
        j = txt.find("]", p1) + 1
        while True:
            mm = re.match(r'\s*#\s*\[', txt[j:])
            if not mm:
                break
            j = _balanced(txt, j + mm.end() - 1, "[", "]")
        k = j; depth = 0; n = len(txt)
        while k < n:
            c = txt[k]
            if c in "([":
                depth += 1
            elif c in ")]":
                depth -= 1
            elif depth == 0 and c in "{;,}":
                break
            k += 1
        if k < n and txt[k] == "{":
            out.append((pred, m.start(), _balanced(txt, k, "{", "}"), None))
        else:
            mm = re.search(r'\bmod\s+([A-Za-z_0-9]+)\s*$', txt[j:k])
            out.append((pred, m.start(), k + 1, mm.group(1) if mm else None))
    return out


def _cfg_effective_predicates():
    """{effective predicate text: file first seen in}: every cfg predicate of the sources conjoined with the predicates of the
    cfg-gated items (blocks, impls, modules, `mod name;` files) that enclose it"""
    src = os.path.join(REPO, "src")
    files = {}
    for root, _, fs in os.walk(src):
        for f in sorted(fs):
            if f.endswith(".rs"):
                pth = os.path.join(root, f)
                files[pth] = _cfg_blank(open(pth, errors="replace").read())
    regs = {pth: _cfg_regions(t) for pth, t in files.items()}
    gates = []  # (path prefix, predicate)
    for pth, rs in regs.items():
        d, stem = os.path.dirname(pth), os.path.splitext(os.path.basename(pth))[0]
        base = d if stem in ("lib", "mod", "main") else os.path.join(d, stem)
        for pred, _, _, modname in rs:
            if modname:
                gates.append((os.path.join(base, modname), pred))
    # gates nest (src/f32.rs gates src/f32/sse2.rs ...): a file inherits the gates of every prefix
    preds = {}
    for pth, txt in files.items():
        noext = os.path.splitext(pth)[0]
        if os.path.basename(noext) == "mod":
            noext = os.path.dirname(noext)
        inherited = [g for pre, g in gates if noext == pre or noext.startswith(pre + os.sep)]
        for m in re.finditer(r'\bcfg(_attr)?!?\s*\(', txt):
            p0 = m.end() - 1
            body = txt[p0 + 1:_balanced(txt, p0) - 1]
            if m.group(1):
                dd = 0
                for k, c in enumerate(body):
                    if c == "(":
                        dd += 1
                    elif c == ")":
                        dd -= 1
                    elif c == "," and dd == 0:
                        body = body[:k]
                        break
            own = re.sub(r'\s+', ' ', body.strip())
            pos = m.start()
            outer = [r[0] for r in regs[pth] if r[1] < pos - 12 and pos < r[2]]
            parts = []
            for q in inherited + outer + [own]:
                if q not in parts:
                    parts.append(q)
            text = parts[0] if len(parts) == 1 else "all(" + ", ".join(parts) + ")"
            preds.setdefault(text, os.path.relpath(pth, REPO))
    return preds


def _cfg_parse(toks, i=0):
    t = toks[i]
    if t in ("all", "any", "not") and i + 1 < len(toks) and toks[i + 1] == "(":
        i += 2
        args = []
        while toks[i] != ")":
            a, i = _cfg_parse(toks, i)
            args.append(a)
            if toks[i] == ",":
                i += 1
        return (t, args), i + 1
    if i + 1 < len(toks) and toks[i + 1] == "=":
        return ("kv", t, toks[i + 2].strip('"')), i + 3
    return ("flag", t), i + 1


def _cfg_eval(p, A):
    k = p[0]
    if k == "all":
        return all(_cfg_eval(x, A) for x in p[1])
    if k == "any":
        return any(_cfg_eval(x, A) for x in p[1])
    if k == "not":
        return not _cfg_eval(p[1][0], A)
    if k == "kv":
        if p[1] == "feature":
            return p[2] in A["features"]
        if p[1] == "target_feature":
            return p[2] in A["tf"]
        return A.get(p[1]) == p[2]
    return bool(A.get(p[1], False))


def _cfg_atoms(p, acc):
    if p[0] in ("all", "any", "not"):
        for x in p[1]:
            _cfg_atoms(x, acc)
    elif p[0] == "kv":
        acc.add((p[1], p[2]))
    else:
        acc.add(("flag", p[1]))
    return acc


def _tf_closure(fs):
    out, todo = set(), list(fs)
    while todo:
        f = todo.pop()
        if f not in out:
            out.add(f)
            todo += TF_IMPLIES.get(f, [])
    return out


def cfg_assignment(c):
    d = CONFIGS[c]
    feats = set()
    for f in d["features"]:
        feats.update(GLAM_FEATURE_OF.get(f, [f]))
    tf = {"sse", "sse2", "fxsr"} | _tf_closure(re.findall(r'\+([A-Za-z0-9_.]+)', d["rustflags"]))
    return {"features": feats, "tf": tf, "debug_assertions": d["profile"] == "dev", "target_arch": "x86_64", "target_os": "linux",
            "target_pointer_width": "64", "target_endian": "little", "target_family": "unix", "unix": True}


_cfgcov = {}


def _cfg_coverage(used, exempt=()):
    """Evaluate every cfg predicate of the sources under the configurations `used` by a check. For a predicate true in none
    of them: borrow a registered configuration that satisfies it, else synthesise one (registered as auto-N), else say why
    not. `exempt`: glam features the property excludes (never turned on to satisfy a predicate).
    -> (table, extra): table[predicate] = {"true_in": [...], ...}; extra = borrowed + synthesised configuration names."""
    native_rustflags()
    if "preds" not in _cfgcov:
        _cfgcov["preds"] = _cfg_effective_predicates()
    preds = _cfgcov["preds"]
    exempt = set(exempt)
    registered = [c for c in CONFIGS if c not in ("int-rel", "int-dbg")]
    assign = {c: cfg_assignment(c) for c in registered}
    table, extra = {}, []
    for text in sorted(preds):
        try:
            p, _ = _cfg_parse(re.findall(r'"[^"]*"|[A-Za-z_][A-Za-z0-9_]*|[(),=]|\$\w+', text))
        except Exception:
            table[text] = {"true_in": [], "why": "not parsed", "first_seen_in": preds[text]}
            continue
        true_in = [c for c in list(used) + extra if c in assign and _cfg_eval(p, assign[c])]
        if true_in:
            table[text] = {"true_in": true_in}
            continue
        entry = {"true_in": [], "first_seen_in": preds[text]}
        borrow = next((c for c in registered if c not in used and _cfg_eval(p, assign[c]) and not (assign[c]["features"] & exempt)
                       and (not c.startswith("native") or cpu_has("fma", "avx2"))), None)
        if borrow:
            extra.append(borrow)
            entry["true_in"] = [borrow]
            entry["borrowed"] = True
            table[text] = entry
            continue
        atoms = sorted(_cfg_atoms(p, set()))
        found = None
        for bits in __import__("itertools").product([False, True], repeat=len(atoms)):
            A = cfg_assignment("sse2-rel")
            A["features"] = set(A["features"]); A["tf"] = set(A["tf"])
            fixed = False
            for (kind, name), on in zip(atoms, bits):
                if kind == "feature":
                    (A["features"].add if on else A["features"].discard)(name)
                elif kind == "target_feature":
                    (A["tf"].add if on else A["tf"].discard)(name)
                elif kind == "flag" and name == "debug_assertions":
                    A["debug_assertions"] = on
                elif on != _cfg_eval(("kv", kind, name) if kind != "flag" else ("flag", name), A):
                    fixed = True
            if fixed:
                continue
            A["tf"] = _tf_closure(A["tf"])
            if not _cfg_eval(p, A):
                continue
            if any(kind == "target_feature" and (name in A["tf"]) != on for (kind, name), on in zip(atoms, bits)):
                continue
            f = A["features"]
            if f & exempt:
                entry.setdefault("why", "needs a feature this property excludes: %s" % ",".join(sorted(f & exempt)))
                continue
            extra_tf = sorted(A["tf"] - {"sse", "sse2", "fxsr"})
            if not all(cpu_has(TF_CPUNAME.get(t, t)) for t in extra_tf):
                entry["why"] = "needs target features this CPU lacks: %s" % ",".join(t for t in extra_tf if not cpu_has(TF_CPUNAME.get(t, t)))
                continue
            if "std" not in f and "libm" not in f and "nostd-libm" not in f:
                entry.setdefault("why", "invalid feature combination (glam needs std or libm)")
                continue
            groups, ok = [], True
            inter = set(GLAM_FEATURE_OF["interop"])
            if f & inter:
                ok = inter <= f  # the simulator enables the optional-dependency features as one group
                groups.append("interop")
            for g in f - inter:
                if g not in GLAM_FEATURE_OF:
                    ok = False
                else:
                    groups.append(g)
            if not ok:
                entry.setdefault("why", "satisfiable, but not with the feature groups the simulator can build")
                continue
            found = dict(tc="nightly" if "core-simd" in f else None, features=sorted(groups), profile="dev" if A["debug_assertions"] else "release",
                         rustflags=("-C target-feature=" + ",".join("+" + t for t in extra_tf)) if extra_tf else "")
            # the configuration as it will really be built (baseline target features cannot be switched off) must satisfy it
            CONFIGS["auto-probe"] = found
            really = _cfg_eval(p, cfg_assignment("auto-probe"))
            del CONFIGS["auto-probe"]
            if not really:
                found = None
                entry.setdefault("why", "needs a baseline target feature switched off")
                continue
            break
        if found:
            name = next((n for n in CONFIGS if n.startswith("auto-") and CONFIGS[n] == found), None)
            if name is None:
                name = "auto-%d" % (1 + sum(1 for n in CONFIGS if n.startswith("auto-")))
                CONFIGS[name] = found
                BACKEND_FEATURE[name] = "scalar-math" if "scalar-math" in found["features"] else ("core-simd" if "core-simd" in found["features"] else None)
                assign[name] = cfg_assignment(name)
            if name not in extra:
                extra.append(name)
            entry["true_in"] = [name]
            entry["synthesised"] = found
        else:
            ex = [CFG_EXEMPT_ATOMS[a] for a in atoms if a in CFG_EXEMPT_ATOMS]
            if ex:
                entry["why"] = ex[0]
            elif any(k == "target_arch" for k, _ in atoms) or any(n in ("simd128", "neon") for _, n in atoms):
                entry.setdefault("why", "another target architecture")
            entry.setdefault("why", "not satisfiable on this host")
        table[text] = entry
    return table, extra


def cfg_coverage(used, exempt=()):
    """never lets an unforeseen shape of source text turn into a harness error: the analysis only ever *adds* configurations"""
    try:
        return _cfg_coverage(used, exempt)
    except Exception as e:  # noqa
        log("cfg predicate analysis failed (%r): continuing with the registered configurations only" % (e,))
        return {"<analysis failed>": {"true_in": [], "why": repr(e)}}, []


def cfg_summary(table, extra):
    return {"predicates": len(table),
            "true_in_some_configuration_run": sum(1 for v in table.values() if v["true_in"]),
            "configurations_added_to_satisfy_a_predicate": extra,
            "synthesised": {k: v["synthesised"] for k, v in table.items() if "synthesised" in v},
            "true_in_no_configuration": {k: v.get("why", "?") for k, v in table.items() if not v["true_in"]},
            "limits": "a predicate is conjoined with the predicates of the cfg-gated blocks, impls, modules and `mod name;` files that enclose it "
                      "(textual nesting; macro-generated gating is not followed); profile-dependent behaviour without a cfg "
                      "(overflow checks) is covered by running the feature variants in both profiles where the property depends on it"}


def available_configs(names):
    out, skipped = [], []
    native_rustflags()
    for n in names:
        if n.startswith("native") and not cpu_has("fma", "avx2"):
            skipped.append((n, "CPU lacks fma/avx2"))
            continue
        out.append(n)
    return out, skipped


# ------------------------------------------------------------------------------------------------
# known findings

def out_root():
    """Evidence and replays of runs against the real /repo live in /verif; runs against a scratch
    copy (sensitivity experiments) keep theirs next to that copy's build output."""
    return VERIF if REPO == "/repo" else os.path.join(TARGET_ROOT, repo_tag())


def load_known():
    p = os.path.join(VERIF, "known_findings.json")
    if not os.path.exists(p):
        return {"known": [], "fixed": []}
    return json.load(open(p))


def classify(prop, violations):
    """violations: list of dicts with class, detail, replay, config. Returns (known, new)."""
    kf = load_known()
    keys = {(k["property"], k["key"]): k for k in kf.get("known", [])}
    known, new = [], []
    for v in violations:
        k = keys.get((prop, v["class"]))
        if k is not None:
            known.append((k, v))
        else:
            new.append(v)
    return known, new


def write_replay(prop, v):
    d = os.path.join(out_root(), "replays")
    os.makedirs(d, exist_ok=True)
    rep = dict(v["replay"])
    rep["config"] = v["config"]
    if str(v["config"]).startswith("auto-") and v["config"] in CONFIGS:
        # a synthesised configuration exists only in the process that derived it: the replay carries its definition
        rep["config_definition"] = CONFIGS[v["config"]]
    h = hashlib.sha1(json.dumps(rep, sort_keys=True).encode()).hexdigest()[:10]
    p = os.path.join(d, "%s-%s-%s.json" % (prop, v["config"], h))
    json.dump(rep, open(p, "w"), indent=1)
    return p


def replay_file(path):
    """Re-execute a replay file in a fresh process of the configuration it names.
    Returns the simulator's verdict dict {reproduced, same_class, class, observed}."""
    rep = json.load(open(path))
    if rep.get("kind") == "cross-build":
        return rep, replay_cross_build(rep, path)
    cfg = rep.get("config")
    if cfg not in CONFIGS and isinstance(rep.get("config_definition"), dict):
        d = rep["config_definition"]
        CONFIGS[cfg] = dict(tc=d.get("tc"), features=list(d.get("features", [])), profile=d.get("profile", "release"), rustflags=d.get("rustflags", ""))
        BACKEND_FEATURE[cfg] = "scalar-math" if "scalar-math" in CONFIGS[cfg]["features"] else ("core-simd" if "core-simd" in CONFIGS[cfg]["features"] else None)
    try:
        if cfg in ("miri", "miri-int", "miri-rel", "miri-scalar", "miri-coresimd"):
            res = run_miri(cfg, ["replay", "--file", path])
        elif cfg == "asan" and rep.get("part") == "asan-run":
            run_asan(rep["cmd"])
            res = {"reproduced": False, "same_class": False, "class": None, "observed": "the workload completed under AddressSanitizer without a report"}
        elif cfg == "asan":
            res = run_asan(["replay", "--file", path])
        elif cfg in CONFIGS:
            res = run_sim(cfg, ["replay", "--file", path])
        else:
            raise HarnessError("replay names unknown configuration %r" % cfg)
    except CrashFound as e:
        same = rep.get("violation_class", "").startswith("memory-fault:")
        return rep, {"reproduced": same, "same_class": same, "class": rep.get("violation_class"), "observed": e.what}
    if "reproduced" not in res:
        # merged result of a monitored run that completed without the monitor firing
        res = {"reproduced": False, "same_class": False, "class": None, "observed": None}
    return rep, res


def crash_violation(e, seed, mem):
    case = e.case or {}
    name = ("%s::%s" % (case["type"], case["fn"])) if "type" in case else case.get("fn", "?")
    cls = "memory-fault:%s" % name
    return {"class": cls, "config": e.cfg, "detail": "%s while executing case %s" % (e.what, json.dumps(case)),
            "replay": {"property": "C18", "part": "M", "seed": seed, "mem": mem, "case": case, "violation_class": cls,
                       "observed": e.what, "monitor": e.cfg}}


def report(prop, all_violations, verify_replay=True):
    """Print KNOWN-FINDING / VIOLATION lines; returns exit code contribution."""
    # one representative per class (first configuration that showed it)
    by_class = {}
    for v in all_violations:
        by_class.setdefault(v["class"], v)
    known, new = classify(prop, list(by_class.values()))
    for k, v in known:
        print("KNOWN-FINDING: property=%s %s [%s] (%s)" % (prop, k["what"], v["class"], v["config"]))
    rc = 0
    for v in new:
        path = write_replay(prop, v)
        note = ""
        if verify_replay:
            try:
                _, res = replay_file(path)
                if not res.get("reproduced"):
                    note = "  (WARNING: replay in a fresh process gave %s)" % json.dumps(res)
            except HarnessError as e:
                note = "  (WARNING: replay failed to run: %s)" % e
        print("VIOLATION property=%s replay=%s" % (prop, path))
        print("  class: %s\n  config: %s\n  observed: %s%s" % (v["class"], v["config"], v["detail"], note))
        rc = 1
    return rc, [k["key"] for k, _ in known], [v["class"] for v in new]


def write_evidence(prop, tier, seed, level, coverage, assumptions, wall, nviol):
    d = os.path.join(out_root(), "evidence")
    os.makedirs(d, exist_ok=True)
    # build-time inputs: which cfg atoms the sources mention and which registered configuration compiles each in
    try:
        coverage = dict(coverage)
        fa = feature_atoms()
        coverage["build_time_inputs"] = {
            "cargo_features_in_source_cfgs": fa,
            "cargo_features_compiled_in_by_no_configuration": sorted(a for a, c in fa.items() if not c),
            "cargo_features_under_not_and_configurations_without_them": negated_feature_atoms(),
            "negated_cargo_features_left_off_by_no_configuration": sorted(a for a, c in negated_feature_atoms().items() if not c),
            "target_features": native_rustflags()[1],
            "configurations": {c: {"features": CONFIGS[c]["features"], "profile": CONFIGS[c]["profile"], "rustflags": CONFIGS[c]["rustflags"],
                                   "toolchain": CONFIGS[c]["tc"] or "stable"} for c in coverage.get("configurations_run", []) if c in CONFIGS},
        }
    except Exception as e:  # evidence only; never affects the verdict
        coverage["build_time_inputs"] = {"error": str(e)}
    ev = {
        "property_id": prop, "tier": tier, "seed": seed, "level": level,
        "coverage": coverage, "assumptions": assumptions, "wall_s": round(wall, 2), "violations": nviol,
    }
    json.dump(ev, open(os.path.join(d, prop + ".json"), "w"), indent=1)


def merge_counts(dst, src):
    for k, v in src.items():
        dst[k] = dst.get(k, 0) + v


COMPONENTS = {
    "real_code": ["all of glam from the working tree of %s (rebuilt by cargo on every run)" % REPO,
                  "serde / serde_json / bytemuck / rkyv+bytecheck / mint crates", "core::fmt"],
    "simulated": ["serde Serializer / Deserializer / SeqAccess / EnumAccess token carriers", "fmt::Write sink",
                  "caller memory arena (length, alignment, guard pages, canaries)", "padding-lane injector",
                  "byte-image corrupter (bit flips, truncation)"],
    "not_present_in_glam": ["threads / scheduler", "clocks / timers (simulated time covered: none)", "network", "disk", "allocator"],
}


# ------------------------------------------------------------------------------------------------
# C19

def check_c19(tier, seed):
    t0 = time.time()
    cfgs, skipped = available_configs(["sse2-rel", "scalar", "coresimd", "cuda", "scalar-cuda", "nostd", "nocheck"] + (["sse2-dbg", "scalar-dbg", "native", "native-fast", "libm"] if tier == "thorough" else []))
    values = 8 if tier == "quick" else 400
    cfg_table, cfg_extra = cfg_coverage(cfgs)
    cfgs = cfgs + cfg_extra
    build_all(cfgs)
    det = selftest_determinism("sse2-rel", seed, [["c19", "--values", 2]], seeds=2 if tier == "quick" else 8)
    results = {}
    for c in cfgs:
        results[c] = run_sim(c, ["c19", "--seed", seed, "--values", values, "--workers", NCPU])
    viols = []
    fired, effective, probes = {}, {}, {}
    evals, distinct = 0, 0
    for c, r in results.items():
        evals += r["evaluations"]
        distinct = max(distinct, r["distinct_nontrivial"])
        merge_counts(fired, r["faults_fired"])
        merge_counts(effective, r["faults_effective"])
        merge_counts(probes, r["probes"])
        for v in r["violations"]:
            v = dict(v)
            v["config"] = c
            viols.append(v)
    # cross-build: per-type digest of (token stream, serde_json text, byte images) must agree
    cross = {"compared_types": 0, "mismatching_types": []}
    ref_cfg = cfgs[0]
    for c in cfgs[1:]:
        common = sorted(set(results[ref_cfg]["digests"]) & set(results[c]["digests"]))
        cross["compared_types"] = max(cross["compared_types"], len(common))
        for t in common:
            if results[ref_cfg]["digests"][t] != results[c]["digests"][t]:
                cross["mismatching_types"].append([t, ref_cfg, c])
                viols.append(cross_build_violation(t, ref_cfg, c, seed, values))
        only = sorted(set(results[ref_cfg]["digests"]) ^ set(results[c]["digests"]))
        if only:
            cross.setdefault("types_not_common", {})[c] = only
    rc, known_keys, new_classes = report("C19", viols, verify_replay=True)
    stuck = sorted(k for k, v in effective.items() if v == 0)
    cov = {
        "evaluations": evals,
        "distinct_nontrivial": distinct,
        "rule": "a case is (type, fault plan, value); the plan space (every carrier call / element position / stored bit / "
                "truncation length of every type) is enumerated completely, values are seeded (masks: all 2^N). distinct = "
                "(type, plan) pairs whose injected fault actually reached glam code, or fault-free plans, counted once per "
                "configuration (max over configurations)",
        "exhaustive": False,
        "samples": results[ref_cfg]["samples"],
        "configurations_run": cfgs,
        "configurations_skipped": skipped,
        "cfg_predicate_coverage": cfg_summary(cfg_table, cfg_extra),
        "fault_kinds_fired": fired,
        "fault_kinds_effective": effective,
        "fault_kinds_stuck_at_zero": stuck,
        "probes": probes,
        "cross_build": cross,
        "determinism_selftest": det,
        "plans_enumerated_per_config": {c: r["extra"]["plans_enumerated"] for c, r in results.items()},
        "values_per_plan": values,
        "runs_per_hour": int(evals / max(time.time() - t0, 1e-9) * 3600),
        "simulated_time": "none - no clock, timer or deadline exists in glam",
        "components": COMPONENTS,
        "known_findings_seen": known_keys,
        "new_violation_classes": new_classes,
    }
    write_evidence("C19", tier, seed, "fault_enumeration", cov,
                   ["x86_64 little-endian host; NEON / wasm32 / spirv backends cannot be built here",
                    "the token carrier is exact by construction; serde_json is trusted only relative to its own element-wise output",
                    "values are sampled, fault positions are enumerated"],
                   time.time() - t0, len(new_classes))
    return rc


def collect(results, viols, fired, effective, probes):
    evals = 0
    for c, r in results:
        evals += r["evaluations"]
        merge_counts(fired, r.get("faults_fired", {}))
        merge_counts(effective, r.get("faults_effective", {}))
        merge_counts(probes, r.get("probes", {}))
        for v in r["violations"]:
            v = dict(v)
            v["config"] = c
            viols.append(v)
    return evals


def selftest_determinism(cfg, seed, cmds, seeds=4):
    """One seed = one execution: every sub-command is run twice per seed, in separate processes, once on 1 worker and
    once on all cores; the complete JSON outputs (event-log digests, counters, samples) must be identical."""
    bad = []
    n = 0
    for k in range(seeds):
        sd = seed + 1000003 * k
        for cmd in cmds:
            a = run_sim(cfg, cmd + ["--seed", sd, "--workers", 1])
            b = run_sim(cfg, cmd + ["--seed", sd, "--workers", NCPU])
            n += 1
            if a != b:
                bad.append((sd, cmd[0]))
    if bad:
        raise HarnessError("determinism self-test failed for %s on %s: the simulator is not a pure function of the seed" % (bad, cfg))
    return {"seeds": seeds, "commands": [" ".join(map(str, c)) for c in cmds], "worker_counts": [1, NCPU], "config": cfg,
            "pairs_compared": n, "diverging": 0}


# ------------------------------------------------------------------------------------------------
# C08

def check_c08(tier, seed):
    t0 = time.time()
    names = ["sse2-rel", "sse2-dbg", "coresimd", "sse2-assert", "native-fast", "sse2-dbg-assert", "nostd"] + (["native", "libm", "cuda", "coresimd-dbg", "native-fast-dbg", "nostd-dbg"] if tier == "thorough" else [])
    cfgs, skipped = available_configs(names)
    skipped.append(("scalar", "the padding lane does not exist under scalar-math (the property says so)"))
    runs = {"quick": {"sse2-rel": 300000, "sse2-dbg": 40000, "coresimd": 300000, "native": 150000, "sse2-assert": 150000, "native-fast": 150000, "sse2-dbg-assert": 20000, "nostd": 100000},
            "thorough": {"sse2-rel": 6000000, "sse2-dbg": 500000, "coresimd": 6000000, "native": 6000000, "sse2-assert": 3000000, "native-fast": 3000000, "sse2-dbg-assert": 300000, "nostd": 2000000, "libm": 1000000, "cuda": 1000000}}[tier]
    cfg_table, cfg_extra = cfg_coverage(cfgs, exempt=["scalar-math"])
    cfgs = cfgs + cfg_extra
    if tier == "thorough" and THOROUGH_SCALE != 1.0:
        runs = {k: max(1000, int(v * THOROUGH_SCALE)) for k, v in runs.items()}
    build_all(cfgs)
    det = selftest_determinism("sse2-rel", seed, [["c08", "--runs", 2000]], seeds=4 if tier == "quick" else 32)
    results = []
    for c in cfgs:
        n = runs.get(c, 100000 if tier == "quick" else 1000000) // (8 if CONFIGS[c]["profile"] == "dev" and c not in runs else 1)
        results.append((c, run_sim(c, ["c08", "--seed", seed, "--runs", n, "--workers", NCPU])))
    viols, fired, effective, probes = [], {}, {}, {}
    evals = collect(results, viols, fired, effective, probes)
    miri = None
    if tier == "thorough":
        # (seeded chains only: the 1.2 M single-op grid programs would take the interpreter days)
        miri = run_miri("miri", [["c08", "--seed", seed + 7919 * i, "--runs", 24, "--workers", 1, "--no-grid"] for i in range(NCPU)])
        results.append(("miri", miri))
        evals += miri["evaluations"]
        for v in miri["violations"]:
            v = dict(v); v["config"] = "miri"; viols.append(v)
    rc, known_keys, new_classes = report("C08", viols)
    ref = results[0][1]
    api = gen_ops("sse2-rel")[1]
    cov = {
        "evaluations": evals,
        "distinct_nontrivial": max(r["distinct_nontrivial"] for _, r in results),
        "rule": "a case is either a grid program (one op; every op x padded argument position x poison class x public route x operand "
                "class, enumerated) or a seeded chain (1-12 public ops over a register file) with a materialised POISON_LANE3 fault plan, "
                "executed under plans none / P / complement(P); distinct = (op, poisoned operand position, poison class) triples whose "
                "poison actually reached an operand of that op (max over configurations)",
        "samples": ref["samples"][:2],
        "configurations_run": [c for c, _ in results],
        "configurations_skipped": skipped,
        "cfg_predicate_coverage": cfg_summary(cfg_table, cfg_extra),
        "programs_per_configuration": {c: r["evaluations"] for c, r in results},
        "grid_programs_per_configuration": {c: r["extra"].get("grid_programs") for c, r in results},
        "fault_kinds_fired": fired,
        "fault_kinds_effective": effective,
        "ops_under_test": ref["extra"]["ops_taking_padded_values"],
        "ops_reached_with_effective_poison": {c: r["extra"]["ops_reached_with_effective_poison"] for c, r in results},
        "ops_never_reached": {c: r["extra"]["ops_never_reached_with_effective_poison"] for c, r in results},
        "steps_executed": sum(r["extra"]["steps_executed"] for _, r in results),
        "uncovered_api": api["uncovered_api"],
        "determinism_selftest": det,
        "event_log_digests": {c: r["digests"] for c, r in results},
        "runs_per_hour": int(evals / max(time.time() - t0, 1e-9) * 3600),
        "simulated_time": "none - no clock, timer or deadline exists in glam",
        "components": COMPONENTS,
        "known_findings_seen": known_keys,
        "new_violation_classes": new_classes,
    }
    write_evidence("C08", tier, seed, "exploration", cov,
                   ["x86_64: SSE2 and core-simd backends only (NEON / wasm32 cannot be built here)",
                    "twin-run non-interference: glam is deterministic, so any visible difference between runs that differ only in "
                    "padding-lane content is a dependence on that lane; programs are sampled, not enumerated",
                    "visible projection read through to_array, field access, Into<[f32;3]>, Into<Vec3> (Vec3A); bitmask, Into<[bool;3]>, test, "
                    "Into<[u32;3]> (BVec3A); to_cols_array, to_cols_array_2d, column fields (Mat3A / Affine3A)"],
                   time.time() - t0, len(new_classes))
    return rc


# ------------------------------------------------------------------------------------------------
# C17

def check_c17(tier, seed):
    t0 = time.time()
    cfgs, skipped = available_configs(["sse2-rel", "scalar", "coresimd", "sse2-dbg", "native-fast", "cuda", "scalar-cuda", "nostd"] + (["native", "libm", "scalar-dbg", "coresimd-dbg", "native-fast-dbg", "nostd-dbg"] if tier == "thorough" else []))
    cfg_table, cfg_extra = cfg_coverage(cfgs)
    cfgs = cfgs + cfg_extra
    build_all(cfgs)
    hist = {"quick": 1500, "thorough": max(1500, int(10000 * THOROUGH_SCALE))}[tier]
    det = selftest_determinism("sse2-rel", seed, [["c17", "--histories", 60, "--no-grid"]], seeds=2 if tier == "quick" else 16)
    results, results_ff = [], []
    for c in cfgs:
        h = hist if CONFIGS[c]["profile"] != "dev" else max(200, hist // 10)
        results.append((c, run_sim(c, ["c17", "--seed", seed, "--histories", h, "--workers", NCPU])))
        # the same histories without any injected fault, so that a fault relaxation cannot hide an ordinary bug
        results_ff.append((c, run_sim(c, ["c17", "--seed", seed, "--histories", max(100, h // 3), "--workers", NCPU, "--no-faults", "--no-grid"])))
    viols, fired, effective, probes = [], {}, {}, {}
    evals = collect(results, viols, fired, effective, probes)
    evals += collect(results_ff, viols, {}, {}, {})
    monitors = {}
    if tier == "thorough":
        for mc in ["miri", "miri-scalar", "miri-coresimd"]:
            try:
                # (grouped types, format-free: formatting machinery and one interpreter process per type cost most of an hour)
                r = run_miri(mc, ["c17", "--seed", seed, "--histories", 3, "--workers", 1, "--no-grid", "--no-fmt"], groups=TYPE_GROUPS)
                monitors[mc] = {"histories": r["evaluations"], "ub_reports": 0}
                evals += r["evaluations"]
                for v in r["violations"]:
                    v = dict(v); v["config"] = mc; viols.append(v)
            except CrashFound as e:
                monitors[mc] = {"ub_reports": 1, "what": e.what}
                viols.append({"class": "memory-fault:c17", "config": mc, "detail": e.what,
                              "replay": {"property": "C17", "kind": "miri-abort", "seed": seed, "violation_class": "memory-fault:c17", "observed": e.what}})
    rc, known_keys, new_classes = report("C17", viols)
    ref = results[0][1]
    cov = {
        "evaluations": evals,
        "distinct_nontrivial": max(r["distinct_nontrivial"] for _, r in results),
        "rule": "a case is a seeded history (1-32 steps) of writes through different paths, with values unique within the history, "
                "executed against the real object and a [bits; N] reference model; after every step every read path is compared with the "
                "model bit for bit. distinct = (type, write path, read path) triples exercised (the full matrix has %d entries); "
                "max over configurations" % ref["extra"]["path_matrix_size"],
        "samples": ref["samples"][:2],
        "configurations_run": cfgs + list(monitors),
        "configurations_skipped": skipped,
        "cfg_predicate_coverage": cfg_summary(cfg_table, cfg_extra),
        "histories_per_config": {c: r["evaluations"] for c, r in results},
        "fault_free_histories_per_config": {c: r["evaluations"] for c, r in results_ff},
        "steps_executed": sum(r["extra"]["steps_executed"] for _, r in results + results_ff),
        "path_matrix_size": ref["extra"]["path_matrix_size"],
        "types": ref["extra"]["types"],
        "fault_kinds_fired": fired,
        "fault_kinds_effective": effective,
        "fault_kinds_stuck_at_zero": sorted(k for k, v in effective.items() if v == 0),
        "history_digests": {c: r["digests"] for c, r in results},
        "determinism_selftest": det,
        "monitors": monitors,
        "runs_per_hour": int(evals / max(time.time() - t0, 1e-9) * 3600),
        "simulated_time": "none - no clock, timer or deadline exists in glam",
        "concurrency": "none - safe Rust gives a mutable history exactly one owner; there is one task and no scheduler to control",
        "components": COMPONENTS,
        "known_findings_seen": known_keys,
        "new_violation_classes": new_classes,
    }
    write_evidence("C17", tier, seed, "exploration", cov,
                   ["x86_64: SSE2 / core-simd (Deref overlay on a register) and scalar (plain struct) layouts",
                    "the reference model is updated from the documented meaning of each write path (lane i := value), not from any glam accessor",
                    "Display/Debug are compared token-wise with the element type's own formatting; bracket style is not judged",
                    "histories are sampled; lengths up to 32 as the property states"],
                   time.time() - t0, len(new_classes))
    return rc


# ------------------------------------------------------------------------------------------------
# C18

def check_c18(tier, seed):
    t0 = time.time()
    cfgs, skipped = available_configs(["sse2-rel", "sse2-dbg", "scalar", "scalar-dbg", "coresimd", "coresimd-dbg", "native-fast", "nostd", "nostd-dbg"]
                                       + (["native", "native-fast-dbg"] if tier == "thorough" else []))
    # alignment variants: only the memory cases and the conversions depend on them
    layout_cfgs = ["cuda", "scalar-cuda"]
    # the generated op table of the 27 integer vector types (every fn / operator / conversion / swizzle / fmt): nothing but
    # primitive integer arithmetic may panic (c18i judges where exactly); release and debug profile
    int_cfgs = ["int-rel", "int-dbg"]
    math_cfgs = ["libm"] if tier == "thorough" else []
    cfg_table, cfg_extra = cfg_coverage(cfgs + math_cfgs + layout_cfgs, exempt=["glam-assert", "debug-glam-assert"])
    cfgs = cfgs + cfg_extra
    build_all(cfgs + math_cfgs + layout_cfgs + int_cfgs)
    rounds = 2 if tier == "quick" else 24
    samples = 512 if tier == "quick" else 20000
    crash_viols = []
    try:
        det = selftest_determinism("sse2-rel", seed, [["c18p", "--samples", 8], ["c18m", "--rounds", 1], ["c18i", "--samples", 20], ["c18chain", "--runs", 20000]], seeds=2 if tier == "quick" else 8)
    except CrashFound as e:
        det = {"aborted_by_memory_fault": e.what}
        crash_viols.append(crash_violation(e, seed, "Guarded"))
    results_m, results_p, results_i, results_c, results_ch = [], [], [], [], []
    for c in cfgs:
        try:
            results_m.append((c, run_sim(c, ["c18m", "--seed", seed, "--rounds", rounds])))
        except CrashFound as e:
            crash_viols.append(crash_violation(e, seed, "Guarded"))
        results_p.append((c, run_sim(c, ["c18p", "--seed", seed, "--samples", samples if CONFIGS[c]["profile"] != "dev" else max(8, samples // 2), "--workers", NCPU])))
        results_i.append((c, run_sim(c, ["c18i", "--seed", seed, "--samples", 300 if tier == "quick" else 20000, "--workers", NCPU])))
        results_c.append((c, run_sim(c, ["conv", "--seed", seed, "--rounds", 200 if tier == "quick" else 20000])))
        nchain = (1000000 if tier == "quick" else 60000000) // (8 if CONFIGS[c]["profile"] == "dev" else 1)
        results_ch.append((c, run_sim(c, ["c18chain", "--seed", seed, "--runs", nchain, "--workers", NCPU])))
    for c in layout_cfgs:
        try:
            results_m.append((c, run_sim(c, ["c18m", "--seed", seed, "--rounds", rounds])))
        except CrashFound as e:
            crash_viols.append(crash_violation(e, seed, "Guarded"))
        results_c.append((c, run_sim(c, ["conv", "--seed", seed, "--rounds", 200 if tier == "quick" else 20000])))
    for c in int_cfgs:
        results_p.append((c, run_sim(c, ["c18p", "--seed", seed, "--samples", 128 if tier == "quick" else 4000, "--workers", NCPU])))
    # math-backend variant: only the hostile sweep depends on it
    for c in math_cfgs:
        results_p.append((c, run_sim(c, ["c18p", "--seed", seed, "--samples", samples, "--workers", NCPU])))
    viols, fired, effective, probes = list(crash_viols), {}, {}, {}
    evals = collect(results_m, viols, fired, effective, probes)
    evals += collect(results_p, viols, fired, effective, probes)
    evals += collect(results_i, viols, fired, effective, probes)
    evals += collect(results_c, viols, fired, effective, probes)
    evals += collect(results_ch, viols, fired, effective, probes)
    monitors = {}
    # machine-level monitor 1: Miri. All interpreter processes of a backend share one pool.
    #  memory   : the slice / index cases on exact-size heap buffers (quick: SIMD-backed types, subset of lengths)
    #  every-op : every public function / operator / conversion of the op table executes under the interpreter (ordinary, mixed
    #             special, all-zero and one structured argument set; quick: two of the four per op)
    #  conv     : pointer-cast / union / aligned-temporary conversions of the SIMD matrix and vector types
    #  histories: short format-free C17 histories of the SIMD-backed vector types (Deref overlays, AsRef/AsMut, to_array ...)
    miri_cfgs = ["miri", "miri-int"] if tier == "quick" else ["miri", "miri-int", "miri-scalar", "miri-coresimd", "miri-rel"]
    for mc in miri_cfgs:
        jobs = []
        if mc == "miri-int":
            # every function / operator / conversion / swizzle of the 27 integer vector types once (thorough: twice) under the
            # interpreter: an uninitialised or out-of-bounds read that leaves results unchanged is invisible everywhere else
            # (11 000 ops at ~0.3 s each: the quick tier takes every other shard, which half alternates with the seed)
            # (11 000 ops at ~0.3 s each, half of them swizzles: the quick tier runs every non-swizzle op and every other shard of
            # the swizzles, which half alternates with the seed)
            # (an interpreter process costs ~50 s before its first call: one wave of NCPU processes in the quick tier)
            of = NCPU
            if tier == "quick":
                nsw = max(1, NCPU * 3 // 4)
                for i in range(nsw):
                    jobs.append(("every-int-op", ["c18p", "--once", "--seed", seed, "--shard", i, "--of", nsw, "--calls", 1, "--swizzles", 1]))
                sw = 2 * max(1, NCPU - nsw)
                for i in range(sw):
                    if (i + seed) % 2 == 0:
                        jobs.append(("every-int-op", ["c18p", "--once", "--seed", seed, "--shard", i, "--of", sw, "--calls", 1, "--swizzles", 2]))
            for i in range(of):
                if tier == "quick":
                    break
                else:
                    jobs.append(("every-int-op", ["c18p", "--once", "--seed", seed, "--shard", i, "--of", 2 * of, "--calls", 2]))
                    jobs.append(("every-int-op", ["c18p", "--once", "--seed", seed, "--shard", i + of, "--of", 2 * of, "--calls", 2]))
            res, crashes = run_miri_pool(mc, jobs)
            for label, r in res.items():
                monitors["%s-%s" % (mc, label)] = {"calls_or_cases": r["evaluations"], "violations": r["violations_total"], "ub_reports": 0}
                evals += r["evaluations"]
                for v in r["violations"]:
                    v = dict(v); v["config"] = mc; viols.append(v)
            for label, e in crashes.items():
                monitors["%s-%s" % (mc, label)] = {"ub_reports": 1, "what": e.what, "case": e.case}
                viols.append(crash_violation(e, seed, "Heap"))
            continue
        # (an interpreter process costs ~50 s before its first case: types are grouped; the release-profile interpreter runs
        # the every-op pass and the conversions only)
        mem_groups = SIMD_GROUPS if tier == "quick" else TYPE_GROUPS
        if mc == "miri-rel":
            mem_groups = []
        for g in mem_groups:
            jobs.append(("memory", ["c18m", "--seed", seed, "--rounds", 1, "--mem", "heap", "--types", ",".join(g)] + (["--subset"] if tier == "quick" else [])))
        # each interpreter process pays ~20 s of start-up: one shard per core; the quick tier makes one call per op (which of
        # the four argument sets rotates with the op index and the seed), the thorough tier all four
        shards = NCPU
        for i in range(shards):
            jobs.append(("every-op", ["c18p", "--once", "--seed", seed, "--shard", i, "--of", shards] + (["--calls", 1, "--related", 4] if tier == "quick" else ["--related", 64])))
        jobs.append(("conv", ["conv", "--seed", seed, "--rounds", 3 if tier == "quick" else 40]))
        conv_types = ["Vec3A", "Vec4", "Quat", "BVec3A", "BVec4A"] + (["Vec3", "DVec4", "DQuat", "IVec3", "U8Vec4"] if tier == "thorough" else [])
        hist_groups = [conv_types[:3], conv_types[3:]] if tier == "quick" else [conv_types[:3], conv_types[3:5], conv_types[5:8], conv_types[8:]]
        if mc == "miri-rel":
            hist_groups = []
        for g in hist_groups:
            jobs.append(("histories", ["c17", "--seed", seed, "--histories", 2 if tier == "quick" else 12, "--workers", 1, "--no-fmt", "--no-grid", "--types", ",".join(g)]))
        res, crashes = run_miri_pool(mc, jobs)
        for label, r in res.items():
            monitors["%s-%s" % (mc, label)] = {"calls_or_cases": r["evaluations"], "violations": r["violations_total"], "ub_reports": 0}
            evals += r["evaluations"]
            for v in r["violations"]:
                v = dict(v); v["config"] = mc; viols.append(v)
        for label, e in crashes.items():
            monitors["%s-%s" % (mc, label)] = {"ub_reports": 1, "what": e.what, "case": e.case}
            if e.case:
                viols.append(crash_violation(e, seed, "Heap"))
            else:
                cls = "memory-fault:miri:%s" % label
                viols.append({"class": cls, "config": mc, "detail": e.what,
                              "replay": {"property": "C18", "part": "conv", "seed": seed, "rounds": 3, "violation_class": cls, "observed": e.what}})
    # AddressSanitizer (release build, as the property prescribes): the memory cases on exact-size heap buffers, and - because
    # a release-only code path can over-read a stack value without changing any result - every other workload as well: integer
    # operators, the hostile sweep, composed calls, conversions, access-path histories, padding-lane programs
    big = tier != "quick"
    asan_jobs = [
        ("memory-cases", ["c18m", "--seed", seed, "--rounds", 16 if big else 2, "--mem", "heap"]),
        ("conversions", ["conv", "--seed", seed, "--rounds", 2000 if big else 100]),
        ("integer-operators", ["c18i", "--seed", seed, "--samples", 400 if big else 20, "--workers", 1]),
        ("hostile-sweep", ["c18p", "--seed", seed, "--samples", 200 if big else 8, "--workers", NCPU]),
        ("composed-calls", ["c18chain", "--seed", seed, "--runs", 4000000 if big else 200000, "--workers", NCPU]),
        ("access-histories", ["c17", "--seed", seed, "--histories", 2000 if big else 60, "--workers", NCPU]),
        ("padding-programs", ["c08", "--seed", seed, "--runs", 400000 if big else 20000, "--workers", NCPU, "--no-grid"]),
    ]
    monitors["asan"] = {}
    for label, args in asan_jobs:
        try:
            r = run_asan(args)
            monitors["asan"][label] = {"cases": r["evaluations"], "violations": r["violations_total"], "asan_reports": 0}
            evals += r["evaluations"]
            for v in r["violations"]:
                v = dict(v); v["config"] = "asan"; viols.append(v)
        except CrashFound as e:
            monitors["asan"][label] = {"asan_reports": 1, "what": e.what}
            if e.case and label == "memory-cases":
                viols.append(crash_violation(e, seed, "Heap"))
            else:
                cls = "memory-fault:asan:%s" % label
                viols.append({"class": cls, "config": "asan", "detail": "%s (workload `%s`; last announced case %s)" % (e.what, " ".join(map(str, args)), json.dumps(e.case)),
                              "replay": {"property": "C18", "part": "asan-run", "seed": seed, "cmd": [str(a) for a in args], "violation_class": cls, "observed": e.what}})
    rc, known_keys, new_classes = report("C18", viols)
    api = {c: gen_ops(c)[1] for c in cfgs}
    if not results_m:
        results_m = [("none", {"evaluations": 0, "distinct_nontrivial": 0, "samples": [], "extra": {}, "violations": []})]
    refm, refp = results_m[0][1], results_p[0][1]
    distinct = max(r["distinct_nontrivial"] for _, r in results_m) + max(r["extra"]["distinct_inputs_executed"] for _, r in results_p)
    cov = {
        "evaluations": evals,
        "distinct_nontrivial": distinct,
        "rule": "(M) every slice function x length 0..N+4 x misalignment 0..3 elements x placement {tail-guard, head-guard, interior+canaries} "
                "and every index function x index in {0..limit+2, usize::MAX}, enumerated completely, contents ordinal then seeded; "
                "(P) every public function/operator/trait method of the float types (from rustdoc JSON of the working tree) x every argument "
                "position x every special-value-lattice entry (uniform, and every single element), lattice products, two-element and fully mixed "
                "seeded samples; (I) every lane-wise operator of the 27 integer vector types x edge values in every lane pair: panics iff the "
                "primitive panics in this build, lanes equal otherwise; "
                "distinct = distinct memory cases + distinct argument tuples actually executed (max over configurations)",
        "exhaustive": False,
        "samples": refm["samples"][:3] + refp["samples"][:3],
        "configurations_run": cfgs + layout_cfgs + int_cfgs + math_cfgs + list(monitors),
        "configurations_skipped": skipped,
        "cfg_predicate_coverage": cfg_summary(cfg_table, cfg_extra),
        "memory_cases_per_config": {c: r["evaluations"] for c, r in results_m},
        "memory_extra": refm["extra"],
        "hostile_calls_per_config": {c: r["evaluations"] for c, r in results_p},
        "composed_call_chains_per_config": {c: r["evaluations"] for c, r in results_ch},
        "composed_call_steps_per_config": {c: r["extra"]["steps_executed"] for c, r in results_ch},
        "conversion_workload_calls_per_config": {c: r["evaluations"] for c, r in results_c},
        "integer_operator_cases_per_config": {c: r["evaluations"] for c, r in results_i},
        "integer_operators": results_i[0][1]["extra"]["integer_ops"],
        "integer_primitive_panics_matched_per_config": {c: r["faults_effective"].get("INT_EDGE_VALUE", 0) for c, r in results_i},
        "ops_per_config": {c: r["extra"]["ops"] for c, r in results_p},
        "integer_table": {"what": "configurations int-rel / int-dbg run the same sweep over the generated table of the 27 integer vector types "
                                  "(every fn, operator, conversion, swizzle, fmt, Sum/Product, field access): a panic is accepted only in a function "
                                  "defined through primitive arithmetic and only with the primitive's own message",
                          "documented_arithmetic_panics_observed": {c: r["extra"].get("documented_integer_arithmetic_panics_observed") for c, r in results_p if c.startswith("int-")},
                          "uncovered_api": api[cfgs[0]].get("int_table", {}).get("uncovered_api", [])[:0],
                          "signatures_outside_vocabulary_covered_by_c18i": len(api[cfgs[0]].get("int_table", {}).get("uncovered_api", []))},
        "fault_kinds_fired": fired,
        "fault_kinds_effective": effective,
        "fault_kinds_stuck_at_zero": sorted(k for k, v in effective.items() if v == 0),
        "monitors": monitors,
        "determinism_selftest": det,
        "uncovered_api": {c: a["uncovered_api"] for c, a in api.items()},
        "runs_per_hour": int(evals / max(time.time() - t0, 1e-9) * 3600),
        "simulated_time": "none - no clock, timer or deadline exists in glam",
        "components": COMPONENTS,
        "known_findings_seen": known_keys,
        "new_violation_classes": new_classes,
    }
    write_evidence("C18", tier, seed, "fault_enumeration", cov,
                   ["x86_64 only; glam-assert / debug-glam-assert features off, as the property states",
                    "(M) is exhaustive over its finite case space; (P) samples values around an exhaustive (function, position, lattice) grid",
                    "a guard-page crash, Miri UB report or ASan report is attributed to the last announced case",
                    "out-of-bounds *reads* that stay inside the arena page are only visible to Miri / ASan, not to canaries"],
                   time.time() - t0, len(new_classes))
    return rc


def cross_build_violation(t, ca, cb, seed, values):
    """Pinpoint the first value whose serialised forms differ between two builds."""
    fa = run_sim(ca, ["c19forms", "--type", t, "--seed", seed, "--values", values])["forms"]
    fb = run_sim(cb, ["c19forms", "--type", t, "--seed", seed, "--values", values])["forms"]
    for x, y in zip(fa, fb):
        if x["forms"] != y["forms"]:
            return {
                "class": "cross-build:%s" % t, "config": cb,
                "detail": "%s build: %s  /  %s build: %s" % (ca, json.dumps(x["forms"]), cb, json.dumps(y["forms"])),
                "replay": {"property": "C19", "kind": "cross-build", "type": t, "configs": [ca, cb], "seed": seed,
                           "value": x["value"], "violation_class": "cross-build:%s" % t,
                           "observed": {ca: x["forms"], cb: y["forms"]}},
            }
    return {
        "class": "cross-build:%s" % t, "config": cb,
        "detail": "per-type digests of %s differ between %s and %s but no single value's forms do (byte images?)" % (t, ca, cb),
        "replay": {"property": "C19", "kind": "cross-build", "type": t, "configs": [ca, cb], "seed": seed,
                   "violation_class": "cross-build:%s" % t, "values": values},
    }


def replay_cross_build(rep, path):
    ca, cb = rep["configs"]
    if "value" not in rep:
        raise HarnessError("cross-build replay without a pinpointed value; re-run the check")
    fa = run_sim(ca, ["c19forms", "--type", rep["type"], "--value-file", path])["forms"][0]["forms"]
    fb = run_sim(cb, ["c19forms", "--type", rep["type"], "--value-file", path])["forms"][0]["forms"]
    same = fa == fb
    return {"reproduced": (not same) and {ca: fa, cb: fb} == rep.get("observed"), "same_class": not same,
            "class": rep["violation_class"] if not same else None, "observed": {ca: fa, cb: fb}}


CHECKS = {"C08": check_c08, "C17": check_c17, "C18": check_c18, "C19": check_c19}


def main():
    ap = argparse.ArgumentParser()
    ap.add_argument("prop", nargs="?")
    ap.add_argument("--tier", default=os.environ.get("VERIF_TIER", "quick"), choices=["quick", "thorough"])
    ap.add_argument("--replay")
    ap.add_argument("--setup", action="store_true")
    ap.add_argument("--seed", type=int, default=int(os.environ.get("VERIF_SEED", DEFAULT_SEED)))
    a = ap.parse_args()
    try:
        if a.setup:
            build_all(available_configs(QUICK_CONFIGS)[0])
            return 0
        if a.replay:
            rep, res = replay_file(a.replay)
            print(json.dumps(res, indent=1))
            if res.get("reproduced") or res.get("same_class"):
                print("VIOLATION property=%s replay=%s" % (rep.get("property"), a.replay))
                if not res.get("reproduced"):
                    print("  (same violation class, different first observation)")
                return 1
            print("replay did not reproduce the violation on the current tree")
            return 0
        if a.prop not in CHECKS:
            print("usage: check.py {%s} [--tier quick|thorough]" % ",".join(sorted(CHECKS)), file=sys.stderr)
            return 2
        log("property %s tier %s seed %d repo %s" % (a.prop, a.tier, a.seed, REPO))
        return CHECKS[a.prop](a.tier, a.seed)
    except HarnessError as e:
        print("HARNESS-ERROR: %s" % e, file=sys.stderr)
        return 2
    except CrashFound as e:
        # a monitor abort outside a place that knows how to turn it into a finding: never a silent verdict
        print("HARNESS-ERROR: unexpected monitor abort in %s: %s (case %s)" % (e.cfg, e.what, json.dumps(e.case)), file=sys.stderr)
        return 2
    except Exception as e:  # noqa
        import traceback
        traceback.print_exc()
        print("HARNESS-ERROR: %r" % e, file=sys.stderr)
        return 2
    except subprocess.TimeoutExpired as e:
        print("HARNESS-ERROR: timeout: %s" % e, file=sys.stderr)
        return 2


if __name__ == "__main__":
    sys.exit(main())
